---------------------------- MODULE GoitFSLang ----------------------------
(***************************************************************************)
(* The language of the write protocols of GoitFS: which sequences of       *)
(* operation kinds a recorded run of each command may show.                *)
(***************************************************************************)
EXTENDS Integers, Sequences

(* -------- the language of a plan: what recorded operation sequences may look like -------- *)
(* A pattern is a sequence of [k, rep]: rep "1" exactly once, "?" optional, "*" any number.     *)
Pat(k, rep) == [k |-> k, rep |-> rep]
PatternOf(cmd) ==
    CASE cmd = "add" -> <<Pat("putobj", "*"), Pat("setidx", "*")>>                       \* per file: blob (unless stored), then index
      [] cmd = "rm" -> <<Pat("wt", "*"), Pat("setidx", "*")>>
      [] cmd = "commit" -> <<Pat("putobj", "*"), Pat("setref", "1"), Pat("log", "*"), Pat("sethead", "1")>>
      [] cmd = "branch" -> <<Pat("setref", "1"), Pat("log", "*")>>
      [] cmd = "branchd" -> <<Pat("delref", "1"), Pat("dellog", "?")>>
      [] cmd = "branchr" -> <<Pat("setref", "1"), Pat("sethead", "1"), Pat("delref", "1"), Pat("log", "*"), Pat("dellog", "?"), Pat("log", "*")>>
      [] cmd = "switch" -> <<Pat("sethead", "1"), Pat("log", "*")>>
      [] cmd = "switchc" -> <<Pat("setref", "1"), Pat("sethead", "1"), Pat("log", "*")>>
      [] cmd = "updateref" -> <<Pat("setref", "1"), Pat("sethead", "1")>>
      [] cmd = "reset" -> <<Pat("setref", "1"), Pat("log", "*"), Pat("setidx", "?"), Pat("wt", "*")>>
      [] cmd = "restore" -> <<Pat("wt", "*")>>
      [] cmd = "restores" -> <<Pat("setidx", "*")>>
      [] cmd = "config" -> <<Pat("cfg", "*")>>
      [] cmd = "init" -> <<Pat("initdir", "*"), Pat("install", "1")>>
      [] OTHER -> <<>>
RECURSIVE Matches(_, _)
Matches(pat, ops) ==
    IF Len(pat) = 0 THEN Len(ops) = 0
    ELSE LET p == Head(pat) IN
         CASE p.rep = "1" -> Len(ops) > 0 /\ Head(ops) = p.k /\ Matches(Tail(pat), Tail(ops))
           [] p.rep = "?" -> Matches(Tail(pat), ops) \/ (Len(ops) > 0 /\ Head(ops) = p.k /\ Matches(Tail(pat), Tail(ops)))
           [] p.rep = "*" -> Matches(Tail(pat), ops) \/ (Len(ops) > 0 /\ Head(ops) = p.k /\ Matches(pat, Tail(ops)))
(* add and rm interleave per argument (blob, index, blob, index ...): any order of their two kinds is in the language *)
Interleaved(cmd) == cmd \in {"add", "rm", "restores"}
Accepts(cmd, ops) ==
    IF Interleaved(cmd) THEN \A i \in 1..Len(ops) : ops[i] \in {PatternOf(cmd)[j].k : j \in 1..Len(PatternOf(cmd))}
    ELSE Matches(PatternOf(cmd), ops)
=============================================================================
