SPECIFICATION FSpec
POSTCONDITION FAccepted
CHECK_DEADLOCK FALSE
