---------------------------- MODULE GoitFSProps ----------------------------
(***************************************************************************)
(* C15, C16 and C19 as clauses over file-level steps of the real binary:   *)
(*   crash step   s = state before the command, t = the state the kernel   *)
(*                would show if the process died after its k-th file-system *)
(*                modification, f = the state after the uninterrupted run   *)
(*   fault step   e = the command as run with one injected I/O error,       *)
(*                t = the state it left, f = the fault-free post-state      *)
(*   damage step  t = a repository Goit produced with one file damaged,     *)
(*                e.results = what each read-only command did on it         *)
(* Observations in these states are the results of the read-only commands. *)
(***************************************************************************)
EXTENDS GoitProps

ROCmds == {"status", "ls", "reflog", "branches", "log", "revparse"}
Res(x, c) ==
    IF c \notin DOMAIN x.obs THEN "norepo"
    ELSE IF c = "log" THEN x.obs.log["d"].res
    ELSE IF c = "revparse" THEN x.obs.revparse["HEAD"].res
    ELSE x.obs[c].res

AllTipsComplete(st) == \A b \in Branches(st) : CommitOk(st, st.refs[b])

CrashClauses(s, e, t, f) ==
    LET S == s.st  T == t.st  F == f.st IN
    <<
    Cl("C15_Loads", {"C15"}, T.repo,
        T.repo => \A c \in ROCmds :
            /\ Res(t, c) \in {"crash", "hang"} => (Res(s, c) \in {"crash", "hang"} \/ Res(f, c) \in {"crash", "hang"})
            /\ (Res(f, c) = "ok" /\ (Res(s, c) = "ok" \/ ~S.repo)) => Res(t, c) = "ok"),
    Cl("C15_Refs", {"C15"}, T.repo,
        T.repo => /\ HeadOk(T) /\ Len(T.refsodd) = 0 /\ AllTipsComplete(T)
                  /\ (HeadHasCommit(S) /\ HeadHasCommit(F)) => HeadHasCommit(T)),
    Cl("C15_Reach", {"C15"}, T.repo /\ Connected(S),
        T.repo /\ Connected(S) => ConnectedReach(T) /\ Immutable(s, t)),
    Cl("C15_OldOrNew", {"C15"}, T.repo,
        T.repo =>
            /\ \A b \in Branches(T) : \/ (b \in Branches(S) /\ T.refs[b] = S.refs[b])
                                      \/ (b \in Branches(F) /\ T.refs[b] = F.refs[b])
            /\ \A b \in Branches(S) \cap Branches(F) : b \in Branches(T))
    >>

(* The user's next step after an interruption is to give the command again.  The interrupted run may have left    *)
(* unreferenced files behind (a tree whose sub-trees were never written, a branch journal without its branch);     *)
(* the second run must not trust them blindly: it neither crashes nor leaves a repository that refers to something *)
(* that is not there.  s is the crash state, t the state after the command was given again.                        *)
RetryClauses(s, e, t) ==
    LET S == s.st  T == t.st
        (* the crash state is sound, or there is no repository yet (init was interrupted) *)
        sound == T.repo /\ (~S.repo \/ (HeadOk(S) /\ Len(S.refsodd) = 0 /\ AllTipsComplete(S) /\ ConnectedReach(S)))
    IN
    <<
    Cl("C15_RetryNoCrash", {"C15"}, TRUE, e.res \in {"ok", "refused"}),
    Cl("C15_RetryUsable", {"C15"}, sound,
        sound => /\ HeadOk(T) /\ Len(T.refsodd) = 0 /\ AllTipsComplete(T) /\ ConnectedReach(T)
                 /\ \A c \in ROCmds : (S.repo /\ Res(s, c) \in {"crash", "hang"}) \/ Res(t, c) \notin {"crash", "hang"})
    >>

(* a command that reported success under a fault must have produced the fault-free result; *)
(* commit ids embed the time of the run, so commits are compared by content                *)
SameCommit(T, a, F, b) ==
    /\ IsCommit(T, a) /\ IsCommit(F, b)
    /\ Obj(T, a).tree = Obj(F, b).tree /\ Obj(T, a).parents = Obj(F, b).parents /\ Obj(T, a).msg = Obj(F, b).msg
SameResult(T, F) ==
    /\ T.wt = F.wt /\ T.idx = F.idx /\ T.head = F.head /\ T.cfgl = F.cfgl /\ T.cfgg = F.cfgg
    /\ Branches(T) = Branches(F)
    /\ \A b \in Branches(T) : T.refs[b] = F.refs[b] \/ SameCommit(T, T.refs[b], F, F.refs[b])
    /\ Len(T.hlog) = Len(F.hlog)
    /\ \A i \in 1..Len(F.hlog) :                  \* the journal records the same moves (commit ids embed the time of the run)
          i <= Len(T.hlog) =>
              /\ T.hlog[i].kind = F.hlog[i].kind
              /\ (T.hlog[i].to = F.hlog[i].to \/ SameCommit(T, T.hlog[i].to, F, F.hlog[i].to))
    /\ \A id \in DOMAIN F.objs : Obj(F, id).k \in {"blob", "tree"} => id \in DOMAIN T.objs

FaultClauses(s, e, t, f) ==
    LET S == s.st  T == t.st  F == f.st
        cs == AllClauses(s, e, t)     \* evaluated in full only when Want contains "ALL"
    IN
    <<
    Cl("C16_NoCrash", {"C16"}, TRUE, e.res \in {"ok", "refused"}),
    Cl("C16_HonestSuccess", {"C16"}, e.res = "ok",
        e.res = "ok" => /\ \A i \in 1..Len(cs) : cs[i].a => cs[i].ok
                        /\ e.cmdres = "ok" => SameResult(T, F)),
    Cl("C16_Connected", {"C16"}, T.repo /\ Connected(S),
        T.repo /\ Connected(S) => Connected(T) /\ Immutable(s, t)),
    Cl("C16_NoBadAdvance", {"C16"}, T.repo /\ Connected(S),
        T.repo /\ Connected(S) =>
            \A b \in Branches(T) : (b \notin Branches(S) \/ T.refs[b] # S.refs[b]) =>
                /\ CommitOk(T, T.refs[b])
                /\ (e.ev = "commit" /\ T.refs[b] \notin DOMAIN S.objs) =>
                      /\ Obj(T, T.refs[b]).parents = (IF b \in Branches(S) THEN <<S.refs[b]>> ELSE <<>>)
                      /\ Flatten(T, Obj(T, T.refs[b]).tree) = IdxPairs(S.idx))
    >>

(* C19: e.results[c] is what read-only command c did on the damaged repository t;           *)
(* e.delivered is the list of [id, c] pairs: bytes (content token c) that cat-file -p printed *)
(* for id, e.wrote the same for files restore / reset --hard put into the working tree.       *)
DamageClauses(s, e, t) ==
    <<
    Cl("C19_Total", {"C19"}, TRUE,
        \A c \in DOMAIN e.results : e.results[c] \in {"ok", "refused"}),
    Cl("C19_NoWrongData", {"C19"}, TRUE,
        \A i \in 1..Len(e.delivered) :
            LET d == e.delivered[i] IN
            d.res = "ok" =>
                IF d.via = "cat-file-t"
                THEN d.cid = d.id     \* the kind printed for an id is the kind of the intact object stored under it (the harness sets cid = id then)
                ELSE ((d.kind = "blob" /\ BlobIdOf(d.c) = d.id) \/ (d.kind \in {"tree", "commit"} /\ d.cid = d.id))),
    (* damage to an object file does not change which commits the history consists of: if log still succeeds it lists *)
    (* what it listed before the damage - a history cut short at a damaged commit is wrong data, not an error           *)
    Cl("C19_LogWhole", {"C19"}, "logids" \in DOMAIN e /\ "log" \in DOMAIN e.results /\ e.results["log"] = "ok",
        ("logids" \in DOMAIN e /\ "log" \in DOMAIN e.results /\ e.results["log"] = "ok") => e.logids = e.goodlogids)
    >>
=============================================================================
