---- MODULE MC_FSOld ----
(* Negative control: GoitFS with the protocol `branch -r` had before its repair.  TLC must report that *)
(* C15_Recoverable is violated (HEAD names a branch that no longer exists); run by `verif selftest`.  *)
EXTENDS GoitFS
====
