------------------------------ MODULE GoitTree ------------------------------
(***************************************************************************)
(* Exhaustive check of the tree algebra over ALL staging areas that can be *)
(* formed from a universe of confusing path names (up to a size bound):    *)
(*   - flattening the nested trees of a staging area gives it back,        *)
(*   - the trees are well formed (Git order),                              *)
(*   - the single-pass writer of cmd/writeTree.go (WriteTreeImpl) builds   *)
(*     exactly those trees from the byte-sorted entries.                   *)
(* Every subset is an initial state; there are no transitions.             *)
(***************************************************************************)
EXTENDS Goit

CONSTANTS Universe, MaxSize

TreeInit ==
    /\ \E S \in SUBSET Universe :
          /\ Cardinality(S) <= MaxSize
          /\ st = Seal([Fresh EXCEPT !.idx = MkIdx({<<p, "b_c1">> : p \in S})])
    /\ last = [ev |-> "init", cls |-> "cmd", res |-> "ok", dom |-> TRUE]
    /\ nk = 0
    /\ hist = <<>>
TreeNext == UNCHANGED vars
TreeSpec == TreeInit /\ [][TreeNext]_vars

InvTreesWellFormed ==
    LET bt == BuildTree(IdxPairs(st.idx)) IN \A id \in DOMAIN bt.objs : TreeWellFormed(bt.objs[id])
=============================================================================
