SPECIFICATION TreeSpec
VIEW StateView
CONSTANTS
 BytesOf <- MCBytesOf
 BlobIdFn <- MCBlobIdFn
 ObjOfTok <- MCObjOfTok
 Split <- MCSplit
 ParentDirs <- MCParentDirs
 Paths <- MCPaths
 ContentSet <- MCContentSet
 BranchNames <- MCBranchNames
 Msgs <- MCMsgs
 Subject <- MCSubject
 MaxCommits = 0
 FreshContent = ""
 Want = {"ALL"}
 ArgLists <- MCArgLists
 InitEvents <- MCInitEvents
 WithId = TRUE
 TZSet <- MCTZSet
 CfgKeys <- MCCfgKeys
 CfgValues <- MCCfgValues
 IgnoreVariants <- MCIgnoreVariants
 Cmds <- MCCmds
 Universe <- MCUniverse
 MaxSize = 5
INVARIANTS InvCanonical InvTreeOf InvWriteTreeImpl InvTreesWellFormed
CHECK_DEADLOCK FALSE
