----------------------------- MODULE GoitTrace -----------------------------
(***************************************************************************)
(* Trace judge: replays the recorded (projected) states of executions of   *)
(* the real goit binary and evaluates every GoitProps clause on every      *)
(* recorded step.  One TLC behaviour = one pass over the trace file; the   *)
(* variable l is the position in the file.  For every step line it prints  *)
(*    {"k":"F", i: line, c: clause, p: properties, kf: explaining known     *)
(*     deviations}  for each failed clause, and {"k":"H", i, p} naming the  *)
(*    properties that had a clause with a true antecedent on that step.    *)
(* The verdict therefore comes from the behaviour of the real binary.      *)
(* Input files: trace.ndjson and tables.json in the working directory.     *)
(***************************************************************************)
EXTENDS Integers, Sequences, FiniteSets, TLC, Json, IOUtils

TraceFile == "trace.ndjson"
TablesFile == "tables.json"

Trace == ndJsonDeserialize(TraceFile)
Tables == JsonDeserialize(TablesFile)

BytesOf(k) == Tables.names[k]
BlobIdFn(c) == Tables.contents[c].blobid
ObjOfTok(tok) == Tables.objects[tok]

CONSTANT Want       \* property ids whose clauses are evaluated; set in the configuration file

INSTANCE GoitAsIs

VARIABLES l, cnt

ReportFails(i, cs, fails, devs) ==
    \A k \in fails :
        PrintT(ToJson([k |-> "F", i |-> i, c |-> cs[k].n, p |-> cs[k].p, kf |-> {d \in devs : cs[k].n \in Explains(d)}]))

AddCounts(c, names) == [n \in (DOMAIN c) \cup names |-> (IF n \in DOMAIN c THEN c[n] ELSE 0) + (IF n \in names THEN 1 ELSE 0)]

(* TLC re-evaluates a LET definition at every reference but evaluates an operator argument once, *)
(* so everything that is used more than once is passed as an argument.                           *)
Report(i, s, e, t, f, cs, hitIdx) ==
    LET fails == {k \in hitIdx : ~cs[k].ok} IN
    /\ (fails # {}) => ReportFails(i, cs, fails, Devs(s, e, t, f))
    /\ (hitIdx # {}) => PrintT(ToJson([k |-> "H", i |-> i, p |-> UNION {cs[j].p : j \in hitIdx}]))
    /\ cnt' = AddCounts(cnt, {cs[j].n : j \in hitIdx})

WithClauses(i, s, e, t, f, cs) == Report(i, s, e, t, f, cs, {j \in 1..Len(cs) : cs[j].a})

WithStates(i, e, s, t, f) ==
    WithClauses(i, s, e, t, f,
        IF e.ev = "crash" THEN CrashClauses(s, e, t, f)
        ELSE IF e.ev = "retry" THEN RetryClauses(s, e, t)
        ELSE IF e.ev = "damage" THEN DamageClauses(s, e, t)
        ELSE IF "fault" \in DOMAIN e THEN FaultClauses(s, e, t, f)
        ELSE AllClauses(s, e, t))

JudgeEv(i, e) == WithStates(i, e, Trace[e.prel], Trace[e.postl], IF "finl" \in DOMAIN e THEN Trace[e.finl] ELSE Trace[e.postl])
Judge(i) == JudgeEv(i, Trace[i])

TraceInit == l = 1 /\ cnt = <<>>
TraceNext ==
    /\ l <= Len(Trace)
    /\ IF Trace[l].kind = "step" /\ "dup" \notin DOMAIN Trace[l] THEN Judge(l) ELSE cnt' = cnt
    /\ l' = l + 1
    /\ (l = Len(Trace)) => PrintT(ToJson([k |-> "CNT", c |-> cnt']))

TraceSpec == TraceInit /\ [][TraceNext]_<<l, cnt>>

(* acceptance: every line was consumed *)
TraceAccepted == TLCGet("stats").diameter - 1 = Len(Trace)
=============================================================================
