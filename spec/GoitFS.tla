------------------------------- MODULE GoitFS -------------------------------
(***************************************************************************)
(* Design-level model of Goit's WRITE PROTOCOLS (C15): every modifying     *)
(* command (init, add, rm, commit, branch, branch -d, branch -r, switch,   *)
(* switch -c, update-ref, reset, restore, restore --staged, config)        *)
(* is a fixed sequence of atomic file-system effects (Plan), a             *)
(* process can be killed between any two of them (Crash), and after every  *)
(* step, interrupted or not, the repository must be Recoverable and every  *)
(* branch must hold its old or its new commit.                             *)
(*                                                                         *)
(* The plans are the protocols of the repaired tree as recorded with       *)
(* strace (DESIGN.md Appendix C): files are written to a temporary file    *)
(* and renamed into place, so the only visible effects are the renames     *)
(* ("putobj", "setref", "sethead", "setidx"), the rename / unlink of a     *)
(* branch file and log appends; temp-file steps are "noop".                *)
(*                                                                         *)
(* TLC explores every interleaving of commands with a crash at every       *)
(* position (MC_FS.cfg).  RenameFirst selects the protocol `branch -r` had *)
(* before the repair recorded in known_findings.json (rename the branch    *)
(* file, then rewrite HEAD): with it TLC finds the state in which HEAD     *)
(* names a branch that no longer exists (MC_FSOld.cfg, run by the self     *)
(* test, must FAIL).  The repaired protocol writes the new name next to    *)
(* the old one, rewrites HEAD and removes the old name last.               *)
(*                                                                         *)
(* GoitFSTrace binds the plans to the code: the operation sequence of      *)
(* every recorded run must be in the language of its command's plan        *)
(* (module GoitFSLang).                                                    *)
(***************************************************************************)
EXTENDS Integers, Sequences, FiniteSets, TLC, GoitFSLang

CONSTANTS Branches,     \* branch names
          MaxCommits,   \* bound on commits created
          RenameFirst   \* TRUE: the protocol of branch -r before its repair (negative control)

Commits == {"c" \o ToString(i) : i \in 1..MaxCommits}
None == "none"

VARIABLES head,     \* branch HEAD names
          refs,     \* branch -> commit or None
          objs,     \* objects present: commits, "t_"commit (its trees), "b_"n (blobs)
          idx,      \* the blob the staging area names, or None
          made,     \* commits created so far
          run,      \* command in progress: [cmd, pc, plan, tgt] or [cmd |-> "idle"]
          pre,      \* refs and head when the command in progress started
          repo      \* "none": no .goit directory yet (init builds it in .goit.tmp), "ok": .goit installed
vars == <<head, refs, objs, idx, made, run, pre, repo>>

Idle == [cmd |-> "idle"]

(* -------- plans: sequences of atomic effects -------- *)
Op(k, a, b) == [k |-> k, a |-> a, b |-> b]
Noop == Op("noop", "", "")
Log == Op("log", "", "")
TmpThen(op) == <<Noop, Noop, op>>           \* create temp file, write it, rename it into place

PlanAdd(blob) == TmpThen(Op("putobj", blob, "")) \o TmpThen(Op("setidx", blob, ""))
PlanCommit(c) ==
    TmpThen(Op("putobj", "t_" \o c, "")) \o TmpThen(Op("putobj", c, ""))
      \o TmpThen(Op("setref", head, c)) \o <<Log, Log>> \o TmpThen(Op("sethead", head, ""))
PlanBranch(n) == TmpThen(Op("setref", n, refs[head])) \o <<Log>>
PlanDelete(n) == <<Op("delref", n, ""), Op("dellog", n, "")>>
PlanRename(n) ==
    IF RenameFirst
    THEN <<Op("renref", head, n)>> \o TmpThen(Op("sethead", n, "")) \o <<Log, Log, Op("dellog", head, ""), Log, Log>>
    ELSE TmpThen(Op("setref", n, refs[head])) \o TmpThen(Op("sethead", n, ""))
           \o <<Op("delref", head, ""), Log, Log, Op("dellog", head, ""), Log, Log>>
PlanSwitch(b) == TmpThen(Op("sethead", b, "")) \o <<Log>>
PlanSwitchC(n) == TmpThen(Op("setref", n, refs[head])) \o TmpThen(Op("sethead", n, "")) \o <<Log, Log>>
PlanUpdateRef(b, c) == TmpThen(Op("setref", b, c)) \o TmpThen(Op("sethead", b, ""))
PlanRm == <<Op("wt", "", "")>> \o TmpThen(Op("setidx", None, ""))         \* working file removed, entry dropped
PlanRestore == <<Op("wt", "", "")>>
PlanRestoreStaged(c) == TmpThen(Op("setidx", "b_" \o c, ""))
PlanConfig == TmpThen(Op("cfg", "", ""))
PlanInit == <<Op("initdir", "", ""), Op("initdir", "", ""), Op("initdir", "", ""), Op("install", "", "")>>   \* built in .goit.tmp, renamed last
PlanReset(c) == TmpThen(Op("setref", head, c)) \o <<Log, Log>> \o TmpThen(Op("setidx", "b_" \o c, ""))

(* -------- the effect of one operation -------- *)
Apply(op) ==
    CASE op.k = "putobj" -> objs' = objs \cup {op.a} /\ UNCHANGED <<head, refs, idx, repo>>
      [] op.k = "setref" -> refs' = [refs EXCEPT ![op.a] = op.b] /\ UNCHANGED <<head, objs, idx, repo>>
      [] op.k = "delref" -> refs' = [refs EXCEPT ![op.a] = None] /\ UNCHANGED <<head, objs, idx, repo>>
      [] op.k = "renref" -> refs' = [refs EXCEPT ![op.b] = refs[op.a], ![op.a] = None] /\ UNCHANGED <<head, objs, idx, repo>>
      [] op.k = "sethead" -> head' = op.a /\ UNCHANGED <<refs, objs, idx, repo>>
      [] op.k = "setidx" -> idx' = op.a /\ UNCHANGED <<head, refs, objs, repo>>
      [] op.k = "install" -> repo' = "ok" /\ UNCHANGED <<head, refs, objs, idx>>
      [] OTHER -> UNCHANGED <<head, refs, objs, idx, repo>>

HasCommit(b) == refs[b] # None
Born == HasCommit(head)

(* -------- commands -------- *)
Start(cmd, plan, isCommit) ==
    /\ run = Idle /\ repo = (IF cmd = "init" THEN "none" ELSE "ok")
    /\ run' = [cmd |-> cmd, pc |-> 1, plan |-> plan]
    /\ pre' = [refs |-> refs, head |-> head]
    /\ made' = IF isCommit THEN made + 1 ELSE made
    /\ UNCHANGED <<head, refs, objs, idx, repo>>

NextBlob == "b_c" \o ToString(made + 1)
StartAdd == Start("add", PlanAdd(NextBlob), FALSE)
StartCommit ==
    /\ made < MaxCommits /\ idx = NextBlob      \* something is staged for the next commit
    /\ Start("commit", PlanCommit("c" \o ToString(made + 1)), TRUE)
StartBranch == \E n \in Branches : ~HasCommit(n) /\ Born /\ Start("branch", PlanBranch(n), FALSE)
StartDelete == \E n \in Branches : HasCommit(n) /\ n # head /\ Start("branchd", PlanDelete(n), FALSE)
StartRename == \E n \in Branches : ~HasCommit(n) /\ Born /\ Start("branchr", PlanRename(n), FALSE)
StartSwitch == \E b \in Branches : HasCommit(b) /\ Start("switch", PlanSwitch(b), FALSE)
StartSwitchC == \E n \in Branches : ~HasCommit(n) /\ Born /\ Start("switchc", PlanSwitchC(n), FALSE)
StartUpdateRef == \E b \in Branches, c \in Commits : HasCommit(b) /\ c \in objs /\ Start("updateref", PlanUpdateRef(b, c), FALSE)
StartReset == \E c \in Commits : Born /\ c \in objs /\ Start("reset", PlanReset(c), FALSE)
StartRm == idx # None /\ Start("rm", PlanRm, FALSE)
StartRestore == idx # None /\ Start("restore", PlanRestore, FALSE)
StartRestoreStaged == Born /\ Start("restores", PlanRestoreStaged(refs[head]), FALSE)
StartConfig == Start("config", PlanConfig, FALSE)
StartInit == Start("init", PlanInit, FALSE)

Step ==
    /\ run # Idle
    /\ Apply(run.plan[run.pc])
    /\ run' = IF run.pc = Len(run.plan) THEN Idle ELSE [run EXCEPT !.pc = run.pc + 1]
    /\ UNCHANGED <<made, pre>>

(* the process is killed before its next operation *)
Crash ==
    /\ run # Idle
    /\ run' = Idle
    /\ UNCHANGED <<head, refs, objs, idx, made, pre, repo>>

Init ==
    /\ head = CHOOSE b \in Branches : TRUE
    /\ refs = [b \in Branches |-> None]
    /\ objs = {} /\ idx = None /\ made = 0 /\ run = Idle /\ repo = "none"
    /\ pre = [refs |-> [b \in Branches |-> None], head |-> CHOOSE b \in Branches : TRUE]

Next == StartAdd \/ StartCommit \/ StartBranch \/ StartDelete \/ StartRename \/ StartSwitch \/ StartSwitchC
          \/ StartUpdateRef \/ StartReset \/ StartRm \/ StartRestore \/ StartRestoreStaged \/ StartConfig \/ StartInit
          \/ Step \/ Crash
Spec == Init /\ [][Next]_vars

(* -------- C15 at design level -------- *)
CommitComplete(c) == c \in objs /\ ("t_" \o c) \in objs /\ ("b_" \o c) \in objs
Recoverable ==
    /\ repo = "none" => (objs = {} /\ idx = None /\ \A b \in Branches : ~HasCommit(b))   \* an interrupted init leaves no repository at all
    /\ head \in Branches
    /\ \A b \in Branches : HasCommit(b) => CommitComplete(refs[b])
    /\ idx # None => idx \in objs
    /\ (\E b \in Branches : HasCommit(b)) => (Born \/ pre.refs[pre.head] = None)    \* HEAD does not lose its commit
C15_Recoverable == Recoverable
(* each branch holds the commit it had when the running command started, or the one the command installs *)
Target(b) ==
    IF run = Idle THEN {refs[b]}
    ELSE {run.plan[i].b : i \in {j \in 1..Len(run.plan) : run.plan[j].k = "setref" /\ run.plan[j].a = b}}
           \cup {pre.refs[run.plan[i].a] : i \in {j \in 1..Len(run.plan) : run.plan[j].k = "renref" /\ run.plan[j].b = b}}
           \cup {None : i \in {j \in 1..Len(run.plan) : run.plan[j].k \in {"delref", "renref"} /\ run.plan[j].a = b}}
C15_OldOrNew == \A b \in Branches : refs[b] \in ({pre.refs[b]} \cup Target(b))

=============================================================================
