----------------------------- MODULE GoitAsIs -----------------------------
(***************************************************************************)
(* What the code does instead: one named deviation per known finding that  *)
(* is recorded rather than repaired.  Dev_F(s, e, t) holds exactly when    *)
(* the step's inputs are in the finding's input class AND the observed     *)
(* behaviour is the modelled wrong behaviour.  Explains(F) is the set of   *)
(* clause names whose failure the deviation accounts for.  A clause        *)
(* failure is attributed to a finding only if such a predicate holds for   *)
(* that very step, so a different wrong behaviour on the same input, or    *)
(* the same wrong behaviour on an input outside the class, is still a      *)
(* violation.  Whether a deviation is *enabled* is decided by the entries  *)
(* of known_findings.json, never here.                                     *)
(***************************************************************************)
EXTENDS GoitFSProps

DevIds == {"KF_C15_rename_gap"}

(* branch -r renames the branch file first and rewrites HEAD second (cmd/branch.go: RenameBranch, then  *)
(* Head.Update).  Killed in between, HEAD still names the old branch, which no longer exists, while the *)
(* new name already holds the commit.  Nothing else differs from the state before the command.          *)
RenameGap(s, e, t, f) ==
    LET S == s.st  T == t.st  F == f.st
        old == HeadBranch(S)
        new == HeadBranch(F) IN
    /\ e.ev = "crash" /\ e.cmd.ev = "branchr" /\ e.cmdres = "ok"
    /\ HeadOk(S) /\ HeadOk(F) /\ old # new
    /\ T.head = S.head
    /\ old \in Branches(S) /\ old \notin Branches(T)
    /\ new \in Branches(T) /\ T.refs[new] = S.refs[old]
    /\ \A b \in Branches(S) \ {old} : b \in Branches(T) /\ T.refs[b] = S.refs[b]
    /\ Branches(T) = (Branches(S) \ {old}) \cup {new}
    /\ T.objs = S.objs /\ T.idx = S.idx /\ T.wt = S.wt /\ T.hlog = S.hlog

Dev(d, s, e, t, f) ==
    CASE d = "KF_C15_rename_gap" -> RenameGap(s, e, t, f)
      [] OTHER -> FALSE

Explains(d) ==
    CASE d = "KF_C15_rename_gap" -> {"C15_Loads", "C15_Refs"}
      [] OTHER -> {}

Devs(s, e, t, f) == {d \in DevIds : Dev(d, s, e, t, f)}
=============================================================================
