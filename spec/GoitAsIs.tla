----------------------------- MODULE GoitAsIs -----------------------------
(***************************************************************************)
(* What the code does instead: one named deviation per known finding that  *)
(* is recorded rather than repaired.  Dev_F(s, e, t) holds exactly when    *)
(* the step's inputs are in the finding's input class AND the observed     *)
(* behaviour is the modelled wrong behaviour.  Explains(F) is the set of   *)
(* clause names whose failure the deviation accounts for.  A clause        *)
(* failure is attributed to a finding only if such a predicate holds for   *)
(* that very step, so a different wrong behaviour on the same input, or    *)
(* the same wrong behaviour on an input outside the class, is still a      *)
(* violation.  Whether a deviation is *enabled* is decided by the entries  *)
(* of known_findings.json, never here.                                     *)
(***************************************************************************)
EXTENDS GoitFSProps

(* No finding is recorded at present: KF-C15-1 (branch -r renamed the branch file before it rewrote HEAD, so a *)
(* kill in between left HEAD naming a branch that no longer existed) was repaired; known_findings.json lists it *)
(* under "fixed", and GoitFS.tla keeps the old protocol as a negative control (RenameFirst).  The mechanism     *)
(* stays: a new finding gets an id in DevIds, a predicate in Dev and the clause names it accounts for in        *)
(* Explains.                                                                                                    *)
DevIds == {}

Dev(d, s, e, t, f) == FALSE

Explains(d) == {}

Devs(s, e, t, f) == {d \in DevIds : Dev(d, s, e, t, f)}
=============================================================================
