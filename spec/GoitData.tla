----------------------------- MODULE GoitData -----------------------------
(***************************************************************************)
(* Pure data algebra shared by the operational model (Goit), the property  *)
(* clauses (GoitProps) and the trace judge (GoitTrace).                    *)
(*                                                                         *)
(* Paths, names, messages and config values are carried as ASCII keys      *)
(* (strings); NamesTab gives the bytes behind a key, so that byte order,   *)
(* prefix, suffix and substring relations are decided on bytes.  The key   *)
(* of a path is the keys of its components joined by "/".                  *)
(* Object ids are opaque.  ObjOfTok maps an object token to the decoded    *)
(* object; a state's objs maps ids to tokens.  BlobIdFn maps a content     *)
(* token to the value of the (uninterpreted) hash function for that        *)
(* content as a blob.  BytesOf gives the bytes behind a key.               *)
(***************************************************************************)
EXTENDS Integers, Sequences, FiniteSets, TLC

CONSTANTS BytesOf(_),      \* the bytes behind a key (a sequence of 0..255)
          BlobIdFn(_),     \* content token -> the id of that content as a blob (uninterpreted hash)
          ObjOfTok(_)      \* object token -> decoded object

Range(f) == {f[x] : x \in DOMAIN f}
SeqToSet(s) == {s[i] : i \in 1..Len(s)}
MinOf(S) == CHOOSE x \in S : \A y \in S : x <= y
Hex40Zero == "0000000000000000000000000000000000000000"

Bytes(k) == BytesOf(k)

(* lexicographic byte order *)
LtB(a, b) ==
    LET n == IF Len(a) < Len(b) THEN Len(a) ELSE Len(b)
        D == {i \in 1..n : a[i] # b[i]}
    IN  IF D = {} THEN Len(a) < Len(b)
        ELSE LET i == MinOf(D) IN a[i] < b[i]

IsPrefixB(a, b) == Len(a) <= Len(b) /\ \A i \in 1..Len(a) : a[i] = b[i]
IsSuffixB(a, b) == Len(a) <= Len(b) /\ \A i \in 1..Len(a) : a[i] = b[Len(b) - Len(a) + i]
ContainsB(b, a) == \E o \in 0..(Len(b) - Len(a)) : \A i \in 1..Len(a) : a[i] = b[o + i]

SLASH == 47

(* p lies strictly beneath directory d: bytes(p) = bytes(d) ++ "/" ++ non-empty *)
UnderB(d, p) == Len(p) > Len(d) + 1 /\ IsPrefixB(d, p) /\ p[Len(d) + 1] = SLASH
Under(d, p) == UnderB(Bytes(d), Bytes(p))

DotGoitB == <<46, 103, 111, 105, 116>>
InMetaB(p) == p = DotGoitB \/ UnderB(DotGoitB, p)
InMeta(p) == InMetaB(Bytes(p))

LastCompB(p) ==
    LET S == {i \in 1..Len(p) : p[i] = SLASH}
    IN  IF S = {} THEN p ELSE LET m == CHOOSE i \in S : \A j \in S : j <= i IN SubSeq(p, m + 1, Len(p))

(* strictly ascending sequence of byte strings *)
StrictAsc(bs) == \A i \in 1..(Len(bs) - 1) : LtB(bs[i], bs[i + 1])

----------------------------------------------------------------------------
(* Staging area *)

IdxPairs(idx) == {<<idx.ents[i].p, idx.ents[i].id>> : i \in 1..Len(idx.ents)}
IdxPaths(idx) == {idx.ents[i].p : i \in 1..Len(idx.ents)}
Tracked(st, p) == p \in IdxPaths(st.idx)
IdxId(idx, p) == (CHOOSE e \in SeqToSet(idx.ents) : e.p = p).id
TrackedUnder(st, d) == {p \in IdxPaths(st.idx) : Under(d, p)}

(* the on-disk staging area is canonical *)
IdxCanonical(idx) ==
    \/ ~idx.present
    \/ /\ idx.ok
       /\ idx.extra = 0
       /\ idx.count = Len(idx.ents)
       /\ StrictAsc([i \in 1..Len(idx.ents) |-> Bytes(idx.ents[i].p)])

----------------------------------------------------------------------------
(* Objects *)

HasObj(st, id) == id \in DOMAIN st.objs
Obj(st, id) == ObjOfTok(st.objs[id])
KindOf(st, id) == IF HasObj(st, id) THEN Obj(st, id).k ELSE "none"
IsCommit(st, id) == HasObj(st, id) /\ LET o == Obj(st, id) IN o.k = "commit" /\ o.ok
IsTree(st, id) == HasObj(st, id) /\ LET o == Obj(st, id) IN o.k = "tree" /\ o.ok
IsBlob(st, id) == HasObj(st, id) /\ Obj(st, id).k = "blob"
BadObjs(st) == {id \in DOMAIN st.objs : Obj(st, id).k = "bad"}
BlobIdOf(c) == BlobIdFn(c)

(* Flatten a stored tree into <<path key, id>> pairs through the independently decoded trees. *)
(* A missing or non-tree object yields a marker pair that can never equal a staged pair.        *)
RECURSIVE FlattenT(_, _, _)
FlattenT(st, tid, pfx) ==
    IF ~HasObj(st, tid) THEN {<<pfx \o "?missing", tid>>}
    ELSE LET o == Obj(st, tid) IN
         IF o.k # "tree" THEN {<<pfx \o "?notatree", tid>>}
         ELSE UNION { LET en == o.ents[i] IN
                      IF en.m = "040000"
                        THEN FlattenT(st, en.id, pfx \o en.n \o "/")
                        ELSE {<<pfx \o en.n, en.id>>} : i \in 1..Len(o.ents) }
Flatten(st, tid) == FlattenT(st, tid, "")

GitKeyB(e) == IF e.m = "040000" THEN Bytes(e.n) \o <<SLASH>> ELSE Bytes(e.n)
TreeWellFormed(o) ==
    /\ o.k = "tree" /\ o.ok
    /\ \A i \in 1..Len(o.ents) : o.ents[i].m \in {"100644", "040000"}
    /\ StrictAsc([i \in 1..Len(o.ents) |-> GitKeyB(o.ents[i])])

(* all trees reachable from tid (including tid), as ids; missing ones included *)
RECURSIVE TreesOf(_, _)
TreesOf(st, tid) ==
    IF ~IsTree(st, tid) THEN {tid}
    ELSE LET o == Obj(st, tid) IN
         {tid} \cup UNION { IF o.ents[i].m = "040000" THEN TreesOf(st, o.ents[i].id) ELSE {} : i \in 1..Len(o.ents) }

----------------------------------------------------------------------------
(* Refs and HEAD *)

Branches(st) == DOMAIN st.refs
RefRaw(st, b) == st.refs[b]
(* a branch value is usable iff it names a commit in the store; raw strings are compared as ids *)
RefId(st, b) == st.refs[b]
HeadOk(st) == st.head.present /\ st.head.ok
HeadBranch(st) == st.head.branch
HeadHasCommit(st) == HeadOk(st) /\ HeadBranch(st) \in Branches(st)
HeadId(st) == st.refs[st.head.branch]

(* first-parent chain starting at commit c, newest first *)
RECURSIVE ChainN(_, _, _)
ChainN(st, c, n) ==
    IF n = 0 \/ ~IsCommit(st, c) THEN <<>>
    ELSE LET ps == Obj(st, c).parents IN
         IF Len(ps) = 0 THEN <<c>> ELSE <<c>> \o ChainN(st, ps[1], n - 1)
Chain(st, c) == ChainN(st, c, Cardinality(DOMAIN st.objs))

HeadTree(st) == Obj(st, HeadId(st)).tree
HeadSnap(st) == IF HeadHasCommit(st) /\ IsCommit(st, HeadId(st)) THEN Flatten(st, HeadTree(st)) ELSE {}

(* staged difference between a snapshot A (HEAD) and B (index), as <<class, path>> pairs *)
PathsOf(S) == {x[1] : x \in S}
Diff(A, B) ==
    {<<"new", p>> : p \in PathsOf(B) \ PathsOf(A)} \cup
    {<<"deleted", p>> : p \in PathsOf(A) \ PathsOf(B)} \cup
    {<<"modified", p>> : p \in {q \in PathsOf(A) \cap PathsOf(B) : {x \in A : x[1] = q} # {x \in B : x[1] = q}}}

=============================================================================
