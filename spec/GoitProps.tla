----------------------------- MODULE GoitProps -----------------------------
(***************************************************************************)
(* C01..C20 (functional part) as named clauses over a step                 *)
(*     (s, e, t):  s, t = state lines [st |-> state, obs |-> observations] *)
(*                 e    = the event with its result                        *)
(* A clause is [n |-> name, p |-> set of property ids, a |-> antecedent,   *)
(* ok |-> antecedent => consequent].  A step fails clause c iff c.a and    *)
(* ~c.ok.  The same clauses are checked by TLC on the operational model    *)
(* (the MC modules) and evaluated by TLC on recorded steps of the binary   *)
(* (GoitTrace).  Where the properties are silent the clauses are silent.   *)
(***************************************************************************)
EXTENDS GoitData

(* Want: the property ids whose clauses are to be evaluated ("ALL" = every clause).  A clause that is  *)
(* not wanted is not evaluated at all (TLC evaluates operator arguments lazily), which is what makes  *)
(* judging long traces cheap: each check asks only for the clauses of its own property.              *)
CONSTANT Want
Wanted(props) == "ALL" \in Want \/ props \cap Want # {}
Cl(name, props, ante, cons) ==
    IF Wanted(props) THEN [n |-> name, p |-> props, a |-> ante, ok |-> cons]
    ELSE [n |-> name, p |-> props, a |-> FALSE, ok |-> TRUE]

IsCmd(e) == e.cls = "cmd"
Ok(e) == e.res = "ok"
Refused(e) == e.res = "refused"
Dom(e) == "dom" \in DOMAIN e /\ e.dom    \* arguments are inside the properties' input domain
Unchanged(s, t) == s.st.dg = t.st.dg
HasObs(x, k) == k \in DOMAIN x.obs
ArgSet(e) == SeqToSet(e.paths)
RECURSIVE JoinLines(_)
JoinLines(sq) == IF Len(sq) = 0 THEN "" ELSE IF Len(sq) = 1 THEN sq[1] ELSE sq[1] \o "%0A" \o JoinLines(Tail(sq))
NoDupArgs(e) == Cardinality(SeqToSet(e.paths)) = Len(e.paths)   \* repeated arguments: first occurrence acts, later ones may fail

----------------------------------------------------------------------------
(* configuration / identity *)
CfgHas(c, sec, key) == c.present /\ sec \in DOMAIN c.sec /\ key \in DOMAIN c.sec[sec]
EffHas(st, key) == CfgHas(st.cfgl, "user", key) \/ CfgHas(st.cfgg, "user", key)
Eff(st, key) == IF CfgHas(st.cfgl, "user", key) THEN st.cfgl.sec["user"][key] ELSE st.cfgg.sec["user"][key]
IdentitySet(st) == EffHas(st, "name") /\ EffHas(st, "email")

----------------------------------------------------------------------------
(* ignore rules (C17, C13): certain-ignore, certain-not-ignore, latitude in between *)
StripSlash(b) == IF Len(b) > 0 /\ b[Len(b)] = SLASH THEN SubSeq(b, 1, Len(b) - 1) ELSE b
StripStar(b) == IF Len(b) > 0 /\ b[1] = 42 THEN SubSeq(b, 2, Len(b)) ELSE b
IsDirLine(b) == Len(b) > 1 /\ b[Len(b)] = SLASH /\ \A i \in 1..(Len(b) - 1) : b[i] # SLASH /\ b[i] # 42
IsExtLine(b) == Len(b) > 2 /\ b[1] = 42 /\ b[2] = 46 /\ \A i \in 2..Len(b) : b[i] # SLASH /\ b[i] # 42
IgnLines(st) == {Bytes(st.ign.lines[i]) : i \in 1..Len(st.ign.lines)}
MustIgnore(st, p) ==
    /\ st.ign.present
    /\ \E ln \in IgnLines(st) :
          \/ IsDirLine(ln) /\ UnderB(StripSlash(ln), Bytes(p))
          \/ IsExtLine(ln) /\ IsSuffixB(StripStar(ln), LastCompB(Bytes(p))) /\ Len(LastCompB(Bytes(p))) > Len(ln) - 1
MustNotIgnore(st, p) ==
    \/ ~st.ign.present
    \/ \A ln \in IgnLines(st) : LET lit == StripStar(ln) IN Len(lit) > 0 /\ ~ContainsB(Bytes(p), lit)
       \* (p is a file: a `name/` line can only match a path that contains "name/", slash included - a regular file called `name` is not hidden by it)

----------------------------------------------------------------------------
(* connectivity (C03) over what is reachable from the branches and the staging area *)
RECURSIVE ReachCommits(_, _, _)
ReachCommits(st, frontier, seen) ==
    IF frontier = {} THEN seen
    ELSE LET nxt == UNION {IF IsCommit(st, c) THEN SeqToSet(Obj(st, c).parents) ELSE {} : c \in frontier}
         IN ReachCommits(st, nxt \ (seen \cup frontier), seen \cup frontier)
TipIds(st) == {st.refs[b] : b \in Branches(st)}
(* all trees reachable from a set of root trees, each expanded once (missing / non-tree ids included) *)
RECURSIVE TreeClosure(_, _, _)
TreeClosure(st, frontier, seen) ==
    IF frontier = {} THEN seen
    ELSE LET nxt == UNION {IF IsTree(st, tid)
                             THEN LET o == Obj(st, tid) IN {o.ents[i].id : i \in {j \in 1..Len(o.ents) : o.ents[j].m = "040000"}}
                             ELSE {} : tid \in frontier}
         IN TreeClosure(st, nxt \ (seen \cup frontier), seen \cup frontier)
TreeEntriesOk(st, tid) ==
    /\ IsTree(st, tid)
    /\ LET o == Obj(st, tid) IN
       \A i \in 1..Len(o.ents) : IF o.ents[i].m = "040000" THEN IsTree(st, o.ents[i].id) ELSE IsBlob(st, o.ents[i].id)
(* one commit: it is a commit and everything its snapshot reaches exists with the right kind *)
CommitOk(st, c) ==
    /\ IsCommit(st, c)
    /\ \A tid \in TreeClosure(st, {Obj(st, c).tree}, {}) : TreeEntriesOk(st, tid)
(* every commit reachable from the branches: commits, parents, snapshots, snapshot entries *)
ReachableOk(st) ==
    LET RC == ReachCommits(st, TipIds(st), {}) IN
    /\ \A c \in RC : IsCommit(st, c)
    /\ \A tid \in TreeClosure(st, {Obj(st, c).tree : c \in RC}, {}) : TreeEntriesOk(st, tid)
IdxOk(st) == st.idx.present => (st.idx.ok /\ \A i \in 1..Len(st.idx.ents) : IsBlob(st, st.idx.ents[i].id))
Connected(st) ==
    st.repo =>
      /\ HeadOk(st)
      /\ Len(st.refsodd) = 0
      /\ ReachableOk(st)
      /\ IdxOk(st)
      /\ \A id \in DOMAIN st.objs : Obj(st, id).k \in {"blob", "tree", "commit"}
(* the same without the store-wide demand: only what refs and staging area reach must be intact (C15) *)
ConnectedReach(st) ==
    st.repo =>
      /\ HeadOk(st)
      /\ Len(st.refsodd) = 0
      /\ ReachableOk(st)
      /\ IdxOk(st)
Immutable(s, t) == \A id \in DOMAIN s.st.objs : id \in DOMAIN t.st.objs /\ t.st.objs[id] = s.st.objs[id]

----------------------------------------------------------------------------
(* expected effect of add (C04, C17) *)
OnDiskFile(st, a) == a \in DOMAIN st.wt
OnDiskDir(st, a) == a = "." \/ a \in SeqToSet(st.dirs)
SelBy(a, p) == a = p \/ a = "." \/ Under(a, p)
PairsFor(S, p) == {x \in S : x[1] = p}
NewPair(st, p) == <<p, BlobIdOf(st.wt[p])>>
AddUniverse(s, t) == IdxPaths(s.st.idx) \cup IdxPaths(t.st.idx) \cup DOMAIN s.st.wt
(* for each path, the set of acceptable sets of staged pairs after `add args` succeeded *)
AddAllowed(s, args, p) ==
    LET S == IdxPairs(s.st.idx)
        old == PairsFor(S, p)
        named == p \in args
        viaDir == \E a \in args : a # p /\ SelBy(a, p) /\ OnDiskDir(s.st, a)
        viaGoneDir == \E a \in args : a # p /\ Under(a, p) /\ ~OnDiskDir(s.st, a) /\ ~OnDiskFile(s.st, a)
    IN  IF p \in DOMAIN s.st.wt /\ (named \/ viaDir) THEN
            IF InMeta(p) THEN {old}
            ELSE IF MustIgnore(s.st, p) THEN {old}
            ELSE IF MustNotIgnore(s.st, p) THEN {{NewPair(s.st, p)}}
            ELSE {old, {NewPair(s.st, p)}}
        ELSE IF p \notin DOMAIN s.st.wt /\ named /\ ~OnDiskDir(s.st, p) THEN
            (IF MustNotIgnore(s.st, p) THEN {{}} ELSE {old, {}})     \* a named path that an ignore rule may match can be skipped
        ELSE IF p \notin DOMAIN s.st.wt /\ viaGoneDir THEN {old, {}}
        ELSE {old}
AddExact(s, t, args) ==
    /\ \A p \in AddUniverse(s, t) : PairsFor(IdxPairs(t.st.idx), p) \in AddAllowed(s, args, p)
    /\ t.st.wt = s.st.wt
    /\ \A x \in IdxPairs(t.st.idx) \ IdxPairs(s.st.idx) :
          IsBlob(t.st, x[2]) /\ (x[1] \in DOMAIN s.st.wt => Obj(t.st, x[2]).d = s.st.wt[x[1]])
ArgKnownToAdd(st, a) == OnDiskFile(st, a) \/ OnDiskDir(st, a) \/ Tracked(st, a) \/ TrackedUnder(st, a) # {}
AddNothingToDo(s, args) ==
    \A p \in IdxPaths(s.st.idx) \cup DOMAIN s.st.wt : AddAllowed(s, args, p) = {PairsFor(IdxPairs(s.st.idx), p)}

(* selection of tracked paths by rm / restore arguments (C04, C06, C09) *)
SelTracked(st, a) == IF Tracked(st, a) THEN {a} ELSE TrackedUnder(st, a)
SelAll(st, args) == UNION {SelTracked(st, a) : a \in args}
ArgsDisjoint(st, argseq) ==
    \A i, j \in 1..Len(argseq) : i # j => SelTracked(st, argseq[i]) \cap SelTracked(st, argseq[j]) = {}
(* an argument that is a tracked path and also has tracked paths beneath it (a file/directory conflict in the  *)
(* staging area) can be read either way: the exactness clauses leave such arguments alone                      *)
NoDFArgs(st, args) == \A a \in args : ~(Tracked(st, a) /\ TrackedUnder(st, a) # {})
(* a tracked path that is a directory on disk (with possibly untracked files in it) may be refused by rm *)
NoneIsDirOnDisk(st, paths) == paths \cap SeqToSet(st.dirs) = {}
(* writing these paths into the working tree would have to replace a directory by a file or a file by a directory, *)
(* which cannot be done without touching what is there: such a command may be refused                              *)
(* (the same holds when the paths conflict among themselves: a staging area or snapshot that names both `lib` and *)
(* `lib/a` - add keeps the entry of a file that has meanwhile become a directory unless it is named - cannot be     *)
(* written into any working tree)                                                                                  *)
WtConflict(st, paths) ==
    \/ \E p \in paths : p \in SeqToSet(st.dirs) \/ \E q \in DOMAIN st.wt : Under(q, p)
    \/ \E p, q \in paths : Under(q, p)
ArgsAllTracked(st, args) == \A a \in args : SelTracked(st, a) # {}
RestrictWt(wt, keep) == [p \in (DOMAIN wt) \cap keep |-> wt[p]]

(* restore --staged selection: known to HEAD snapshot or to the staging area *)
KnownS(s) == PathsOf(HeadSnap(s.st)) \cup IdxPaths(s.st.idx)
SelStaged(s, a) == {p \in KnownS(s) : p = a \/ Under(a, p)}
StagedDisjoint(s, argseq) ==
    \A i, j \in 1..Len(argseq) : i # j => SelStaged(s, argseq[i]) \cap SelStaged(s, argseq[j]) = {}

----------------------------------------------------------------------------
(* reflog view (C08, C11) *)
View(x) == IF HasObs(x, "reflog") /\ x.obs.reflog.res = "ok" THEN x.obs.reflog.ents ELSE <<>>
SameEntry(a, b) == a.id7 = b.id7 /\ a.kind = b.kind /\ a.msg = b.msg
ShiftsBy(V, W, k) == Len(W) = Len(V) + k /\ \A i \in 1..Len(V) : SameEntry(V[i], W[i + k])
ResetModes == {"soft", "mixed", "hard", "default"}
PosValid(s, e) == e.wf /\ e.n < Len(View(s)) /\ View(s)[e.n + 1].ok /\ View(s)[e.n + 1].full # "" /\ IsCommit(s.st, View(s)[e.n + 1].full)
TargetId(s, e) == View(s)[e.n + 1].full
AllCommittedPaths(st) ==
    UNION {PathsOf(Flatten(st, Obj(st, c).tree)) : c \in {x \in DOMAIN st.objs : IsCommit(st, x)}}

----------------------------------------------------------------------------
(* log (C14) *)
TakeN(sq, n) == SubSeq(sq, 1, IF n < Len(sq) THEN n ELSE Len(sq))
LogIds(l) == [i \in 1..Len(l.ents) |-> l.ents[i].id]
LogEntOk(st, en) ==
    IsCommit(st, en.id) =>
        LET c == Obj(st, en.id) IN
        /\ c.author.ok => en.author = c.author.name \o "%20<" \o c.author.email \o ">"
        /\ en.msg = c.msg

----------------------------------------------------------------------------
(* The clause list.  `init` steps and environment edits are judged only by the *)
(* state clauses that apply to them.                                          *)

StateClausesW(s, e, t, connS, connT) ==
    LET T == t.st
        stOk == HasObs(t, "status") /\ HeadOk(t.st) /\ connT
    IN
    <<
    Cl("C01_Bad", {"C01", "C03"}, IsCmd(e) /\ T.repo /\ BadObjs(s.st) = {},
        IsCmd(e) /\ T.repo /\ BadObjs(s.st) = {} =>
            BadObjs(T) = {} /\ \A id \in DOMAIN T.objs : Obj(T, id).k \in {"blob", "tree", "commit"}),
    Cl("C01_Immutable", {"C01", "C03"}, IsCmd(e) /\ DOMAIN s.st.objs # {},
        IsCmd(e) /\ DOMAIN s.st.objs # {} => Immutable(s, t)),
    Cl("C01_HashObject", {"C01"}, HasObs(t, "hash") /\ DOMAIN t.obs.hash # {},
        HasObs(t, "hash") /\ DOMAIN t.obs.hash # {} =>
            \A p \in DOMAIN t.obs.hash : t.obs.hash[p].res = "ok" /\ t.obs.hash[p].out = BlobIdOf(T.wt[p])),
    Cl("C01_CatFile", {"C01"}, HasObs(t, "catfile") /\ DOMAIN t.obs.catfile # {},
        HasObs(t, "catfile") /\ DOMAIN t.obs.catfile # {} =>
            \A id \in DOMAIN t.obs.catfile :
               LET o == Obj(T, id)  cf == t.obs.catfile[id] IN
               o.k \in {"blob", "tree", "commit"} =>
                  /\ cf.tres = "ok" /\ cf.t = o.k /\ cf.pres = "ok"
                  /\ o.k \in {"blob", "commit"} => (cf.p.c = o.d /\ cf.p.nl)),
    Cl("C03_Connected", {"C03"}, IsCmd(e) /\ connS,
        IsCmd(e) /\ connS => connT),
    Cl("C03_HeadKept", {"C03"}, IsCmd(e) /\ connS /\ HeadHasCommit(s.st),
        IsCmd(e) /\ connS /\ HeadHasCommit(s.st) => HeadHasCommit(T)),     \* HEAD never goes from a branch with a commit to a branch that does not exist
    Cl("C05_CatTree", {"C05", "C01"}, HasObs(t, "catfile") /\ \E id \in DOMAIN t.obs.catfile : Obj(T, id).k = "tree",
        HasObs(t, "catfile") =>
            \A id \in DOMAIN t.obs.catfile :
               LET o == Obj(T, id)  cf == t.obs.catfile[id] IN
               (o.k = "tree" /\ o.ok) =>
                  /\ cf.pres = "ok"
                  /\ Len(cf.p.lines) = Len(o.ents)
                  /\ \A i \in 1..Len(o.ents) :
                        /\ i <= Len(cf.p.lines)
                        /\ cf.p.lines[i].n = o.ents[i].n
                        /\ cf.p.lines[i].id = o.ents[i].id
                        /\ cf.p.lines[i].m = o.ents[i].m
                        /\ cf.p.lines[i].k = (IF o.ents[i].m = "040000" THEN "tree" ELSE "blob")),
    Cl("C06_Canonical", {"C06"}, IsCmd(e) /\ IdxCanonical(s.st.idx),
        IsCmd(e) /\ IdxCanonical(s.st.idx) => IdxCanonical(T.idx)),
    Cl("C06_ReadBack", {"C06"}, HasObs(t, "ls") /\ T.idx.ok,
        HasObs(t, "ls") /\ T.idx.ok => t.obs.ls.res = "ok" /\ t.obs.ls.ents = T.idx.ents),
    Cl("C07_StagedReport", {"C07"}, stOk,
        stOk =>
            /\ t.obs.status.res = "ok"
            /\ {<<t.obs.status.staged[i].c, t.obs.status.staged[i].p>> : i \in 1..Len(t.obs.status.staged)}
                  = Diff(HeadSnap(T), IdxPairs(T.idx))
            /\ Len(t.obs.status.staged) = Cardinality(Diff(HeadSnap(T), IdxPairs(T.idx)))),
    Cl("C10_List", {"C10"}, HasObs(t, "branches") /\ HeadOk(T),
        HasObs(t, "branches") /\ HeadOk(T) =>
            /\ t.obs.branches.res = "ok"
            /\ SeqToSet(t.obs.branches.names) = Branches(T)
            /\ Len(t.obs.branches.names) = Cardinality(Branches(T))
            /\ t.obs.branches.cur = (IF HeadBranch(T) \in Branches(T) THEN <<HeadBranch(T)>> ELSE <<>>)),
    Cl("C10_RevParse", {"C10"}, HasObs(t, "revparse") /\ HeadOk(T),
        HasObs(t, "revparse") /\ HeadOk(T) =>
            /\ HeadHasCommit(T) => (t.obs.revparse["HEAD"].res = "ok" /\ t.obs.revparse["HEAD"].out = HeadId(T))
            /\ \A b \in Branches(T) : ("b:" \o b) \in DOMAIN t.obs.revparse =>
                  (t.obs.revparse["b:" \o b].res = "ok" /\ t.obs.revparse["b:" \o b].out = T.refs[b])),
    Cl("C11_Readable", {"C11"}, HasObs(t, "reflog") /\ Len(T.hlog) > 0 /\ connT,
        HasObs(t, "reflog") /\ Len(T.hlog) > 0 /\ connT =>
            /\ t.obs.reflog.res = "ok"
            /\ \A i \in 1..Len(t.obs.reflog.ents) : t.obs.reflog.ents[i].ok /\ t.obs.reflog.ents[i].n = i - 1),
    Cl("C13_Modified", {"C13"}, stOk,
        stOk =>
            /\ t.obs.status.res = "ok"
            /\ {x.p : x \in {y \in SeqToSet(t.obs.status.unstaged) : y.c = "modified"}}
                  = {p \in IdxPaths(T.idx) \cap DOMAIN T.wt : Obj(T, IdxId(T.idx, p)).d # T.wt[p]}),
    Cl("C13_Deleted", {"C13"}, stOk,
        stOk =>
            LET rep == {x.p : x \in {y \in SeqToSet(t.obs.status.unstaged) : y.c = "deleted"}} IN
            /\ t.obs.status.res = "ok"
            /\ {p \in IdxPaths(T.idx) : p \notin DOMAIN T.wt /\ p \notin SeqToSet(T.dirs)} \subseteq rep
            /\ rep \subseteq {p \in IdxPaths(T.idx) : p \notin DOMAIN T.wt}
            /\ \A x \in SeqToSet(t.obs.status.unstaged) : x.c \in {"modified", "deleted"}
            /\ Len(t.obs.status.unstaged) = Cardinality(SeqToSet(t.obs.status.unstaged))),
    Cl("C13_Untracked", {"C13", "C17"}, stOk,
        stOk =>
            LET L == SeqToSet(t.obs.status.untracked) IN
            /\ t.obs.status.res = "ok"
            /\ {p \in DOMAIN T.wt : ~Tracked(T, p) /\ MustNotIgnore(T, p)} \subseteq L
            /\ L \subseteq {p \in DOMAIN T.wt : ~Tracked(T, p) /\ ~MustIgnore(T, p)}
            /\ Len(t.obs.status.untracked) = Cardinality(L)),
    Cl("C14_Log", {"C14"}, HasObs(t, "log") /\ HeadHasCommit(T) /\ connT,
        HasObs(t, "log") /\ HeadHasCommit(T) /\ connT =>
            \A key \in DOMAIN t.obs.log :
               LET l == t.obs.log[key]
                   k == IF l.k < 0 THEN 5 ELSE l.k IN
               /\ l.res = "ok"
               /\ LogIds(l) = TakeN(Chain(T, HeadId(T)), k)
               /\ \A i \in 1..Len(l.ents) : LogEntOk(T, l.ents[i])),
    Cl("C17_NoMeta", {"C17"}, IsCmd(e) /\ T.repo /\ \A p \in IdxPaths(s.st.idx) : ~InMeta(p),
        IsCmd(e) /\ T.repo /\ (\A p \in IdxPaths(s.st.idx) : ~InMeta(p)) => \A p \in IdxPaths(T.idx) : ~InMeta(p)),
    Cl("C18_NoCrash", {"C18"}, IsCmd(e),
        IsCmd(e) => e.res \in {"ok", "refused"}),
    Cl("C18_ObsNoCrash", {"C18"}, T.repo /\ connT,
        T.repo /\ connT =>
            /\ HasObs(t, "status") => t.obs.status.res \in {"ok", "refused"}
            /\ HasObs(t, "ls") => t.obs.ls.res \in {"ok", "refused"}
            /\ HasObs(t, "reflog") => t.obs.reflog.res \in {"ok", "refused"}
            /\ HasObs(t, "branches") => t.obs.branches.res \in {"ok", "refused"}
            /\ HasObs(t, "log") => \A k \in DOMAIN t.obs.log : t.obs.log[k].res \in {"ok", "refused"}
            /\ HasObs(t, "catfile") => \A k \in DOMAIN t.obs.catfile : t.obs.catfile[k].tres \in {"ok", "refused"} /\ t.obs.catfile[k].pres \in {"ok", "refused"}),
    Cl("C20_Parses", {"C20"}, IsCmd(e) /\ s.st.cfgl.ok /\ s.st.cfgg.ok,
        IsCmd(e) /\ s.st.cfgl.ok /\ s.st.cfgg.ok => T.cfgl.ok /\ T.cfgg.ok)
    >>

RefusedUnchangedEvs == {"commit", "branch", "branchd", "branchr", "branchlist", "switch", "switchc", "reset", "updateref",
                        "config", "catfile", "revparse", "log", "status", "reflog", "lsfiles", "hashobject", "version"}
RefusedUnchangedApplies(e) == e.ev \in RefusedUnchangedEvs \/ (e.ev = "raw" /\ "ru" \in DOMAIN e /\ e.ru)

CommitClausesW(s, e, t, connS, connT) ==
    LET S == s.st  T == t.st
        hb == HeadBranch(S)
        c == IF HeadOk(T) /\ HeadBranch(T) \in Branches(T) THEN HeadId(T) ELSE "none"
        co == Obj(T, c)
        NewCommits == {id \in DOMAIN T.objs \ DOMAIN S.objs : Obj(T, id).k = "commit"}
        D == Diff(HeadSnap(S), IdxPairs(S.idx))
        isC == e.ev = "commit"
        okC == isC /\ Ok(e) /\ IsCommit(T, c)
    IN
    <<
    Cl("C02_OneNew", {"C02"}, isC /\ Ok(e),
        isC /\ Ok(e) => IsCommit(T, c) /\ (NewCommits = {c} \/ (NewCommits = {} /\ IsCommit(S, c)))),
    Cl("C02_Snapshot", {"C02", "C05"}, okC,
        okC => /\ Flatten(T, co.tree) = IdxPairs(S.idx)
               /\ \A tid \in TreesOf(T, co.tree) : IsTree(T, tid) /\ TreeWellFormed(Obj(T, tid))
               /\ \A x \in IdxPairs(S.idx) : IsBlob(T, x[2])),
    Cl("C02_Parent", {"C02"}, okC,
        okC => co.parents = (IF hb \in Branches(S) THEN <<S.refs[hb]>> ELSE <<>>)),
    Cl("C02_Move", {"C02"}, isC /\ Ok(e),
        isC /\ Ok(e) =>
            /\ T.head = S.head
            /\ Branches(T) = Branches(S) \cup {hb}
            /\ \A b \in Branches(S) \ {hb} : T.refs[b] = S.refs[b]
            /\ T.idx = S.idx /\ T.wt = S.wt
            /\ (hb \in Branches(S) /\ D # {}) => T.refs[hb] # S.refs[hb]),
    Cl("C02_Who", {"C02", "C20", "C12"}, okC /\ IdentitySet(S),
        okC /\ IdentitySet(S) =>
            /\ co.author.ok /\ co.committer.ok
            /\ co.author.name = Eff(S, "name") /\ co.author.email = Eff(S, "email")
            /\ co.committer.name = Eff(S, "name") /\ co.committer.email = Eff(S, "email")
            /\ co.msg = e.msg /\ co.nl),
    Cl("C07_CleanAfterCommit", {"C07"}, okC /\ HasObs(t, "status"),
        okC /\ HasObs(t, "status") => t.obs.status.res = "ok" /\ Len(t.obs.status.staged) = 0),
    Cl("C07_NothingRefused", {"C07"}, isC /\ D = {} /\ connS /\ HeadOk(S),
        isC /\ D = {} /\ connS /\ HeadOk(S) =>
            /\ Refused(e)
            /\ {id \in DOMAIN T.objs \ DOMAIN S.objs : Obj(T, id).k = "commit"} = {}
            /\ T.refs = S.refs /\ T.head = S.head),
    Cl("C07_DiffCommits", {"C07", "C12"}, isC /\ D # {} /\ IdentitySet(S) /\ Dom(e) /\ connS /\ HeadOk(S),
        isC /\ D # {} /\ IdentitySet(S) /\ Dom(e) /\ connS /\ HeadOk(S) => Ok(e)),
    Cl("C11_CommitEntry", {"C11"}, okC /\ HasObs(t, "reflog"),
        okC /\ HasObs(t, "reflog") =>
            /\ t.obs.reflog.res = "ok"
            /\ Len(View(t)) >= Len(View(s)) + 1
            /\ View(t)[1].full = c /\ View(t)[1].kind = "commit"
            /\ ("msg1" \in DOMAIN e /\ Dom(e)) => View(t)[1].msg = e.msg1),
    Cl("C12_Stored", {"C12"}, okC,
        okC => /\ co.author.ok /\ co.committer.ok
               /\ co.author.off = e.tz /\ co.committer.off = e.tz
               /\ co.author.secs >= e.t0 /\ co.author.secs <= e.t1
               /\ co.committer.secs = co.author.secs),
    Cl("C12_ReadBack", {"C12"}, okC /\ HasObs(t, "log") /\ "k1" \in DOMAIN t.obs.log,
        okC /\ HasObs(t, "log") /\ "k1" \in DOMAIN t.obs.log =>
            LET l == t.obs.log["k1"] IN
            /\ l.res = "ok" /\ Len(l.ents) = 1
            /\ l.ents[1].id = c
            /\ l.ents[1].author = co.author.name \o "%20<" \o co.author.email \o ">"
            /\ l.ents[1].dok /\ l.ents[1].secs = co.author.secs /\ l.ents[1].off = co.author.off
            /\ l.ents[1].msg = co.msg),
    (* every listed commit, not only the newest, is shown with its own instant and offset *)
    Cl("C12_LogAll", {"C12"}, HasObs(t, "log") /\ connT /\ HeadHasCommit(T),
        HasObs(t, "log") /\ connT /\ HeadHasCommit(T) =>
            \A key \in DOMAIN t.obs.log :
                \A i \in 1..Len(t.obs.log[key].ents) :
                    LET en == t.obs.log[key].ents[i] IN
                    (IsCommit(T, en.id) /\ Obj(T, en.id).author.ok) =>
                        /\ en.dok /\ en.secs = Obj(T, en.id).author.secs /\ en.off = Obj(T, en.id).author.off
                        /\ en.author = Obj(T, en.id).author.name \o "%20<" \o Obj(T, en.id).author.email \o ">"),
    Cl("C20_Gate", {"C20"}, isC /\ ~IdentitySet(S),
        isC /\ ~IdentitySet(S) => Refused(e) /\ Unchanged(s, t))
    >>

StageClausesW(s, e, t, connS, connT) ==
    LET S == s.st  T == t.st
        isAdd == e.ev = "add" /\ Dom(e) /\ connS
        isRm == e.ev = "rm" /\ Dom(e) /\ connS /\ NoDFArgs(S, ArgSet(e))
        isRestore == e.ev = "restore" /\ Dom(e) /\ connS /\ NoDFArgs(S, ArgSet(e))
        isRestoreS == e.ev = "restores" /\ Dom(e) /\ connS /\ HeadHasCommit(S)
    IN
    <<
    Cl("C04_AddExact", {"C04", "C17", "C02", "C06"}, isAdd /\ Ok(e),
        isAdd /\ Ok(e) => AddExact(s, t, ArgSet(e))),
    Cl("C04_AddRefuse", {"C04", "C18"}, isAdd /\ \E a \in ArgSet(e) : ~ArgKnownToAdd(S, a),
        isAdd /\ (\E a \in ArgSet(e) : ~ArgKnownToAdd(S, a)) => Refused(e) /\ Unchanged(s, t)),
    Cl("C04_AddAccept", {"C04", "C06"}, isAdd /\ Len(e.paths) > 0 /\ NoDupArgs(e) /\ \A a \in ArgSet(e) : (OnDiskFile(S, a) \/ OnDiskDir(S, a) \/ Tracked(S, a)),
        isAdd /\ Len(e.paths) > 0 /\ NoDupArgs(e) /\ (\A a \in ArgSet(e) : (OnDiskFile(S, a) \/ OnDiskDir(S, a) \/ Tracked(S, a))) => Ok(e)),
    Cl("C04_AddIdem", {"C04"}, isAdd /\ Ok(e) /\ AddNothingToDo(s, ArgSet(e)),
        isAdd /\ Ok(e) /\ AddNothingToDo(s, ArgSet(e)) => T.idx = S.idx /\ DOMAIN T.objs = DOMAIN S.objs),
    Cl("C04_RmExact", {"C04", "C06"}, isRm /\ Ok(e),
        isRm /\ Ok(e) =>
            LET R == SelAll(S, ArgSet(e)) IN
            /\ IdxPairs(T.idx) = {x \in IdxPairs(S.idx) : x[1] \notin R}
            /\ T.wt = RestrictWt(S.wt, DOMAIN S.wt \ R)),
    (* a tracked file or directory named through another spelling (docs/, ./docs, d/./x): what the arguments name after *)
    (* lexical cleaning is what is removed                                                                             *)
    Cl("C04_RmSpelled", {"C04", "C06"}, e.ev = "rm" /\ ~Dom(e) /\ "cpaths" \in DOMAIN e /\ Len(e.cpaths) > 0 /\ Ok(e) /\ NoDFArgs(S, SeqToSet(e.cpaths)),
        (e.ev = "rm" /\ ~Dom(e) /\ "cpaths" \in DOMAIN e /\ Len(e.cpaths) > 0 /\ Ok(e) /\ NoDFArgs(S, SeqToSet(e.cpaths))) =>
            LET R == SelAll(S, SeqToSet(e.cpaths)) IN
            /\ IdxPairs(T.idx) = {x \in IdxPairs(S.idx) : x[1] \notin R}
            /\ T.wt = RestrictWt(S.wt, DOMAIN S.wt \ R)),
    Cl("C06_RmFound", {"C06", "C04"}, isRm /\ Len(e.paths) > 0 /\ ArgsAllTracked(S, ArgSet(e)) /\ ArgsDisjoint(S, e.paths) /\ NoneIsDirOnDisk(S, SelAll(S, ArgSet(e))),
        isRm /\ Len(e.paths) > 0 /\ ArgsAllTracked(S, ArgSet(e)) /\ ArgsDisjoint(S, e.paths) /\ NoneIsDirOnDisk(S, SelAll(S, ArgSet(e))) => Ok(e)),
    Cl("C06_RmUnknown", {"C06", "C18"}, isRm /\ \E a \in ArgSet(e) : SelTracked(S, a) = {},
        isRm /\ (\E a \in ArgSet(e) : SelTracked(S, a) = {}) => Refused(e) /\ Unchanged(s, t)),
    Cl("C09_Worktree", {"C09", "C06"}, isRestore /\ Ok(e),
        isRestore /\ Ok(e) =>
            LET R == SelAll(S, ArgSet(e)) IN
            /\ \A p \in R : p \in DOMAIN T.wt /\ T.wt[p] = Obj(S, IdxId(S.idx, p)).d
            /\ DOMAIN T.wt = DOMAIN S.wt \cup R
            /\ \A p \in DOMAIN S.wt \ R : T.wt[p] = S.wt[p]
            /\ T.idx = S.idx),
    (* the same files named through another spelling of their paths (./f, d/./g, d//g, d/../f): what the arguments *)
    (* name after lexical cleaning is what counts                                                                 *)
    Cl("C09_Spelled", {"C09"}, e.ev = "restore" /\ ~Dom(e) /\ "cpaths" \in DOMAIN e /\ Len(e.cpaths) > 0
                                 /\ (\A i \in 1..Len(e.cpaths) : Tracked(S, e.cpaths[i]) /\ e.cpaths[i] \in DOMAIN S.wt)
                                 /\ Cardinality(SeqToSet(e.cpaths)) = Len(e.cpaths) /\ NoDFArgs(S, SeqToSet(e.cpaths)),
        (e.ev = "restore" /\ ~Dom(e) /\ "cpaths" \in DOMAIN e /\ Len(e.cpaths) > 0
            /\ (\A i \in 1..Len(e.cpaths) : Tracked(S, e.cpaths[i]) /\ e.cpaths[i] \in DOMAIN S.wt)
            /\ Cardinality(SeqToSet(e.cpaths)) = Len(e.cpaths) /\ NoDFArgs(S, SeqToSet(e.cpaths))) =>
            /\ Ok(e)
            /\ \A i \in 1..Len(e.cpaths) : e.cpaths[i] \in DOMAIN T.wt /\ T.wt[e.cpaths[i]] = Obj(S, IdxId(S.idx, e.cpaths[i])).d
            /\ T.idx = S.idx),
    Cl("C09_RestoreFound", {"C09", "C06"}, isRestore /\ Len(e.paths) > 0 /\ ArgsAllTracked(S, ArgSet(e)) /\ ~WtConflict(S, SelAll(S, ArgSet(e))),
        isRestore /\ Len(e.paths) > 0 /\ ArgsAllTracked(S, ArgSet(e)) /\ ~WtConflict(S, SelAll(S, ArgSet(e))) => Ok(e)),
    Cl("C09_Unknown", {"C09", "C06"}, isRestore /\ Len(e.paths) > 0 /\ SelTracked(S, e.paths[1]) = {},
        isRestore /\ Len(e.paths) > 0 /\ SelTracked(S, e.paths[1]) = {} => Refused(e) /\ Unchanged(s, t)),
    Cl("C09_AnyUnknown", {"C09"}, isRestore /\ \E a \in ArgSet(e) : SelTracked(S, a) = {},
        isRestore /\ (\E a \in ArgSet(e) : SelTracked(S, a) = {}) => Refused(e)),
    Cl("C09_Staged", {"C09"}, isRestoreS /\ Ok(e),
        isRestoreS /\ Ok(e) =>
            LET H == HeadSnap(S)
                R == UNION {SelStaged(s, a) : a \in ArgSet(e)}
                (* an argument that HEAD or the staging area knows both as a file and as a directory (a snapshot can *)
                (* hold `src` and `src/a`, see WtConflict) can be read either way: each selected path then has its   *)
                (* HEAD entry or keeps its staged one                                                                 *)
                df == \E a \in ArgSet(e) : a \in KnownS(s) /\ \E q \in KnownS(s) : Under(a, q) IN
            /\ \A p \in R : \/ PairsFor(IdxPairs(T.idx), p) = PairsFor(H, p)
                             \/ (df /\ PairsFor(IdxPairs(T.idx), p) = PairsFor(IdxPairs(S.idx), p))
            /\ \A p \in (IdxPaths(S.idx) \cup IdxPaths(T.idx)) \ R : PairsFor(IdxPairs(T.idx), p) = PairsFor(IdxPairs(S.idx), p)
            /\ T.wt = S.wt),
    Cl("C09_StagedFound", {"C09"}, isRestoreS /\ Len(e.paths) > 0 /\ StagedDisjoint(s, e.paths) /\ \A a \in ArgSet(e) : SelStaged(s, a) # {},
        isRestoreS /\ Len(e.paths) > 0 /\ StagedDisjoint(s, e.paths) /\ (\A a \in ArgSet(e) : SelStaged(s, a) # {}) => Ok(e)),
    Cl("C09_StagedUnknown", {"C09"}, isRestoreS /\ \E a \in ArgSet(e) : SelStaged(s, a) = {},
        isRestoreS /\ (\E a \in ArgSet(e) : SelStaged(s, a) = {}) =>
            Refused(e) /\ (SelStaged(s, e.paths[1]) = {} => Unchanged(s, t))),
    (* write-tree stores the nested trees of the staging area and prints the id of the root: the printed id names a *)
    (* stored tree that flattens back to the staging area, and nothing else changes                                  *)
    Cl("C01_WriteTree", {"C01", "C05"}, e.ev = "writetree" /\ Ok(e) /\ S.idx.ok /\ "out" \in DOMAIN e,
        e.ev = "writetree" /\ Ok(e) /\ S.idx.ok /\ "out" \in DOMAIN e =>
            LET id == e.out.esc IN
            /\ IsTree(T, id)
            /\ Flatten(T, id) = IdxPairs(S.idx)
            /\ \A tid \in TreesOf(T, id) : IsTree(T, tid) /\ TreeWellFormed(Obj(T, tid))
            /\ T.idx = S.idx /\ T.refs = S.refs /\ T.head = S.head /\ T.wt = S.wt),
    (* hash-object with several files prints, line by line, the blob id of each file's own bytes *)
    Cl("C01_HashObjectCmd", {"C01"}, e.ev = "hashobject" /\ Ok(e) /\ "out" \in DOMAIN e /\ \A i \in 1..Len(e.paths) : e.paths[i] \in DOMAIN S.wt,
        e.ev = "hashobject" /\ Ok(e) /\ "out" \in DOMAIN e /\ (\A i \in 1..Len(e.paths) : e.paths[i] \in DOMAIN S.wt) =>
            /\ e.out.esc = JoinLines([i \in 1..Len(e.paths) |-> BlobIdOf(S.wt[e.paths[i]])])
            /\ Unchanged(s, t)),
    Cl("C17_NoIgnoredStaged", {"C17"}, e.ev = "add" /\ IsCmd(e),
        e.ev = "add" /\ IsCmd(e) =>
            \A x \in IdxPairs(T.idx) \ IdxPairs(S.idx) : ~InMeta(x[1]) /\ ~MustIgnore(S, x[1])),
    Cl("C17_MetaSafe", {"C17"}, e.ev \in {"restore"} /\ Ok(e),
        e.ev \in {"restore"} /\ Ok(e) => T.meta = S.meta /\ T.objs = S.objs)
    >>

ResetClausesW(s, e, t, connS, connT) ==
    LET S == s.st  T == t.st
        isR == e.ev = "reset" /\ connS /\ HeadOk(S) /\ HasObs(s, "reflog")
        okR == isR /\ Ok(e) /\ PosValid(s, e)
        hb == HeadBranch(S)
        snap == Flatten(S, Obj(S, TargetId(s, e)).tree)
    IN
    <<
    Cl("C08_Refuse", {"C08", "C03", "C11"}, isR /\ (~PosValid(s, e) \/ e.mode \notin ResetModes),
        isR /\ (~PosValid(s, e) \/ e.mode \notin ResetModes) => Refused(e) /\ Unchanged(s, t)),
    Cl("C08_Accept", {"C08", "C11"}, isR /\ PosValid(s, e) /\ e.mode \in ResetModes /\ HeadHasCommit(S) /\ (e.mode = "hard" => ~WtConflict(S, PathsOf(snap))),
        isR /\ PosValid(s, e) /\ e.mode \in ResetModes /\ HeadHasCommit(S) /\ (e.mode = "hard" => ~WtConflict(S, PathsOf(snap))) => Ok(e)),
    Cl("C08_Target", {"C08", "C11"}, okR,
        okR => /\ T.head = S.head
               /\ Branches(T) = Branches(S)
               /\ T.refs[hb] = TargetId(s, e)
               /\ \A b \in Branches(S) \ {hb} : T.refs[b] = S.refs[b]),
    Cl("C08_Soft", {"C08"}, okR /\ e.mode = "soft",
        okR /\ e.mode = "soft" => T.idx = S.idx /\ T.wt = S.wt),
    Cl("C08_Mixed", {"C08", "C05"}, okR /\ e.mode \in {"mixed", "default"},
        okR /\ e.mode \in {"mixed", "default"} => T.wt = S.wt /\ IdxPairs(T.idx) = snap),
    Cl("C08_AsStaged", {"C08"}, okR /\ e.mode \in {"mixed", "default", "hard"} /\ IdxCanonical(S.idx),
        \* "equal to the snapshot" as a staging area, not as a bag of records: in the canonical order every lookup relies on,
        \* and read back by ls-files as it is stored
        okR /\ e.mode \in {"mixed", "default", "hard"} /\ IdxCanonical(S.idx) =>
            /\ IdxCanonical(T.idx)
            /\ (HasObs(t, "ls") /\ T.idx.ok => t.obs.ls.res = "ok" /\ t.obs.ls.ents = T.idx.ents)),
    Cl("C08_Hard", {"C08", "C05"}, okR /\ e.mode = "hard",
        okR /\ e.mode = "hard" =>
            /\ IdxPairs(T.idx) = snap
            /\ \A x \in snap : x[1] \in DOMAIN T.wt /\ IsBlob(S, x[2]) /\ T.wt[x[1]] = Obj(S, x[2]).d
            /\ LET ever == IdxPaths(S.idx) \cup AllCommittedPaths(S) IN
               \A p \in DOMAIN S.wt \ ever : p \in DOMAIN T.wt /\ T.wt[p] = S.wt[p]),
    Cl("C17_MetaSafeReset", {"C17"}, okR /\ e.mode = "hard",
        okR /\ e.mode = "hard" =>
            \A f \in DOMAIN S.meta :
                f \notin {"index", "HEAD", "logs/HEAD", "refs/heads/" \o hb, "logs/refs/heads/" \o hb}
                    => (f \in DOMAIN T.meta /\ T.meta[f] = S.meta[f])),
    Cl("C11_ResetEntry", {"C11"}, okR /\ HasObs(t, "reflog"),
        okR /\ HasObs(t, "reflog") =>
            /\ t.obs.reflog.res = "ok"
            /\ Len(View(t)) >= Len(View(s)) + 1
            /\ View(t)[1].full = T.refs[hb] /\ View(t)[1].kind = "reset")
    >>

RefClausesW(s, e, t, connS, connT) ==
    LET S == s.st  T == t.st
        ok0 == connS /\ HeadOk(S)
        hb == HeadBranch(S)
        nm == IF "name" \in DOMAIN e THEN e.name ELSE ""
        has == nm \in Branches(S)
        hc == HeadHasCommit(S)
        RestSame(ex) == \A b \in Branches(S) \ ex : b \in Branches(T) /\ T.refs[b] = S.refs[b]
        (* reset --hard with well-formed, in-range arguments can still fail, after it has moved the branch, when the *)
        (* working tree holds a directory where the snapshot has a file (or the reverse): that is a failure to write, *)
        (* not a refusal for invalid arguments, and C18's last sentence does not speak about it (C08_Accept leaves    *)
        (* the same cases alone).  Without the reflog observation the position cannot be resolved: no verdict.        *)
        (* a command line from the CLI grammar ("raw") that is one of the commands which move branches or HEAD *)
        rawRef == e.ev = "raw" /\ ("sub" \notin DOMAIN e \/ e.sub \in {"branch", "switch", "update-ref", "commit", "reset", "init", ""})
        hardMayFail == e.ev = "reset" /\ "mode" \in DOMAIN e /\ e.mode = "hard"
                         /\ (~(ok0 /\ HasObs(s, "reflog"))
                              \/ (PosValid(s, e) /\ WtConflict(S, PathsOf(Flatten(S, Obj(S, TargetId(s, e)).tree)))))
    IN
    <<
    Cl("C10_Create", {"C10"}, e.ev = "branch" /\ ok0 /\ Dom(e) /\ hc /\ ~has,
        e.ev = "branch" /\ ok0 /\ Dom(e) /\ hc /\ ~has =>
            /\ Ok(e) /\ Branches(T) = Branches(S) \cup {nm} /\ T.refs[nm] = S.refs[hb] /\ RestSame({}) /\ T.head = S.head),
    Cl("C10_CreateDup", {"C10"}, e.ev \in {"branch", "switchc", "branchr"} /\ ok0 /\ has,
        e.ev \in {"branch", "switchc", "branchr"} /\ ok0 /\ has => Refused(e) /\ Unchanged(s, t)),
    Cl("C10_Delete", {"C10"}, e.ev = "branchd" /\ ok0 /\ has /\ nm # hb,
        e.ev = "branchd" /\ ok0 /\ has /\ nm # hb =>
            /\ Ok(e) /\ Branches(T) = Branches(S) \ {nm} /\ RestSame({nm}) /\ T.head = S.head),
    Cl("C10_DeleteRefuse", {"C10"}, e.ev = "branchd" /\ ok0 /\ (~has \/ nm = hb),
        e.ev = "branchd" /\ ok0 /\ (~has \/ nm = hb) => Refused(e) /\ Unchanged(s, t)),
    Cl("C10_Rename", {"C10"}, e.ev = "branchr" /\ ok0 /\ Dom(e) /\ hc /\ ~has,
        e.ev = "branchr" /\ ok0 /\ Dom(e) /\ hc /\ ~has =>
            /\ Ok(e) /\ Branches(T) = (Branches(S) \ {hb}) \cup {nm} /\ T.refs[nm] = S.refs[hb]
            /\ RestSame({hb}) /\ HeadOk(T) /\ HeadBranch(T) = nm),
    Cl("C10_Switch", {"C10"}, e.ev = "switch" /\ ok0 /\ has,
        e.ev = "switch" /\ ok0 /\ has => Ok(e) /\ T.refs = S.refs /\ HeadOk(T) /\ HeadBranch(T) = nm),
    Cl("C10_SwitchUnknown", {"C10"}, e.ev = "switch" /\ ok0 /\ ~has,
        e.ev = "switch" /\ ok0 /\ ~has => Refused(e) /\ Unchanged(s, t)),
    Cl("C10_SwitchC", {"C10"}, e.ev = "switchc" /\ ok0 /\ Dom(e) /\ hc /\ ~has,
        e.ev = "switchc" /\ ok0 /\ Dom(e) /\ hc /\ ~has =>
            /\ Ok(e) /\ Branches(T) = Branches(S) \cup {nm} /\ T.refs[nm] = S.refs[hb] /\ RestSame({})
            /\ HeadOk(T) /\ HeadBranch(T) = nm),
    Cl("C10_UpdateRef", {"C10"}, e.ev = "updateref" /\ ok0 /\ e.exact /\ e.branch \in Branches(S) /\ IsCommit(S, e.id),
        e.ev = "updateref" /\ ok0 /\ e.exact /\ e.branch \in Branches(S) /\ IsCommit(S, e.id) =>
            /\ Ok(e) /\ Branches(T) = Branches(S) /\ T.refs[e.branch] = e.id /\ RestSame({e.branch})),
    Cl("C10_UpdateRefRefuse", {"C10", "C03"}, e.ev = "updateref" /\ ok0 /\ (~e.exact \/ e.branch \notin Branches(S) \/ ~IsCommit(S, e.id)),
        e.ev = "updateref" /\ ok0 /\ (~e.exact \/ e.branch \notin Branches(S) \/ ~IsCommit(S, e.id)) =>
            Refused(e) /\ Unchanged(s, t)),
    Cl("C10_Others", {"C10"}, IsCmd(e) /\ ok0 /\ ~rawRef /\ e.ev \notin {"commit", "reset", "updateref", "branchd", "branchr"},
        IsCmd(e) /\ ok0 /\ ~rawRef /\ e.ev \notin {"commit", "reset", "updateref", "branchd", "branchr"} => RestSame({})),
    Cl("C10_NoSpurious", {"C10"}, IsCmd(e) /\ ok0 /\ ~rawRef /\ e.ev \notin {"commit", "branch", "switchc", "branchr"},
        IsCmd(e) /\ ok0 /\ ~rawRef /\ e.ev \notin {"commit", "branch", "switchc", "branchr"} => Branches(T) \subseteq Branches(S)),
    Cl("C10_HeadStays", {"C10"}, IsCmd(e) /\ ok0 /\ ~rawRef /\ e.ev \notin {"switch", "switchc", "branchr", "updateref"},
        IsCmd(e) /\ ok0 /\ ~rawRef /\ e.ev \notin {"switch", "switchc", "branchr", "updateref"} => T.head = S.head),
    Cl("C11_Append", {"C11"}, IsCmd(e) /\ HasObs(s, "reflog") /\ s.obs.reflog.res = "ok" /\ HasObs(t, "reflog") /\ connS,
        IsCmd(e) /\ HasObs(s, "reflog") /\ s.obs.reflog.res = "ok" /\ HasObs(t, "reflog") /\ connS =>
            /\ t.obs.reflog.res = "ok"
            /\ \E k \in 0..Len(View(t)) : ShiftsBy(View(s), View(t), k)),
    Cl("C11_SwitchEntry", {"C11", "C10"}, e.ev \in {"switch", "switchc"} /\ Ok(e) /\ HasObs(t, "reflog") /\ ok0 /\ HeadHasCommit(T),
        e.ev \in {"switch", "switchc"} /\ Ok(e) /\ HasObs(t, "reflog") /\ ok0 /\ HeadHasCommit(T) =>
            /\ t.obs.reflog.res = "ok"
            /\ Len(View(t)) >= Len(View(s)) + 1
            /\ View(t)[1].full = HeadId(T) /\ View(t)[1].kind = "checkout"),
    (* C10: "a refused operation changes nothing" - for every spelling of the branch commands, also the ones with *)
    (* surplus or combined arguments (`switch -c new existing`) that the command line grammar produces            *)
    (* rev-parse with several names prints, line by line, the commit each name stands for (HEAD = the current branch) *)
    (* (a branch that is itself called HEAD makes the name ambiguous: no verdict then; the driver does not name branches *)
    (* whose lower-case spelling is "head" here, because Goit reads every spelling of HEAD as HEAD)                       *)
    Cl("C10_RevParseCmd", {"C10"}, e.ev = "revparse" /\ ok0 /\ "out" \in DOMAIN e /\ Len(e.names) > 0 /\ "HEAD" \notin Branches(S)
                                     /\ (\A i \in 1..Len(e.names) : e.names[i] \in Branches(S) \/ (e.names[i] = "HEAD" /\ hc)),
        (e.ev = "revparse" /\ ok0 /\ "out" \in DOMAIN e /\ Len(e.names) > 0 /\ "HEAD" \notin Branches(S)
            /\ (\A i \in 1..Len(e.names) : e.names[i] \in Branches(S) \/ (e.names[i] = "HEAD" /\ hc))) =>
            /\ Ok(e)
            /\ e.out.esc = JoinLines([i \in 1..Len(e.names) |-> IF e.names[i] = "HEAD" /\ "HEAD" \notin Branches(S) THEN S.refs[hb] ELSE S.refs[e.names[i]]])
            /\ Unchanged(s, t)),
    Cl("C10_RefusedNothing", {"C10"},
        IsCmd(e) /\ Refused(e) /\ (e.ev \in {"branch", "branchd", "branchr", "switch", "switchc", "updateref", "branchlist"}
                                     \/ (e.ev = "raw" /\ "ru" \in DOMAIN e /\ e.ru /\ "sub" \in DOMAIN e /\ e.sub \in {"branch", "switch", "update-ref", "rev-parse"})),
        IsCmd(e) /\ Refused(e) /\ (e.ev \in {"branch", "branchd", "branchr", "switch", "switchc", "updateref", "branchlist"}
                                     \/ (e.ev = "raw" /\ "ru" \in DOMAIN e /\ e.ru /\ "sub" \in DOMAIN e /\ e.sub \in {"branch", "switch", "update-ref", "rev-parse"}))
            => Unchanged(s, t)),
    Cl("C18_RefusedUnchanged", {"C18"}, IsCmd(e) /\ Refused(e) /\ RefusedUnchangedApplies(e) /\ ~hardMayFail,
        IsCmd(e) /\ Refused(e) /\ RefusedUnchangedApplies(e) /\ ~hardMayFail => Unchanged(s, t))
    >>

ConfigClauses(s, e, t) ==
    LET S == s.st  T == t.st
        isCfg == e.ev = "config" /\ Dom(e) /\ S.cfgl.ok /\ S.cfgg.ok
        g == "global" \in DOMAIN e /\ e.global
        old == IF g THEN S.cfgg ELSE S.cfgl
        new == IF g THEN T.cfgg ELSE T.cfgl
        other == IF g THEN T.cfgl = S.cfgl ELSE T.cfgg = S.cfgg
    IN
    <<
    Cl("C20_SetOk", {"C20"}, isCfg, isCfg => Ok(e)),
    Cl("C20_Set", {"C20", "C02", "C12"}, isCfg /\ Ok(e),
        isCfg /\ Ok(e) =>
            /\ new.present /\ new.ok /\ other
            /\ DOMAIN new.sec = DOMAIN old.sec \cup {e.sec}
            /\ \A sc \in DOMAIN new.sec :
                  LET okeys == IF sc \in DOMAIN old.sec THEN DOMAIN old.sec[sc] ELSE {} IN
                  /\ DOMAIN new.sec[sc] = okeys \cup (IF sc = e.sec THEN {e.k} ELSE {})
                  /\ \A k \in DOMAIN new.sec[sc] :
                        new.sec[sc][k] = (IF sc = e.sec /\ k = e.k THEN e.value ELSE old.sec[sc][k]))
    >>

ContentOnlyClauses(s, e, t) ==
    <<
    Cl("C13_ContentOnly", {"C13"}, e.cls = "env" /\ e.ev \in {"touch", "write"} /\ s.st.dg = t.st.dg /\ HasObs(s, "status") /\ HasObs(t, "status"),
        e.cls = "env" /\ e.ev \in {"touch", "write"} /\ s.st.dg = t.st.dg /\ HasObs(s, "status") /\ HasObs(t, "status") =>
            t.obs.status = s.obs.status),
    Cl("C14_OnlyGraph", {"C14"}, HasObs(s, "log") /\ HasObs(t, "log") /\ s.st.objs = t.st.objs /\ HeadHasCommit(s.st) /\ HeadHasCommit(t.st) /\ HeadId(s.st) = HeadId(t.st),
        HasObs(s, "log") /\ HasObs(t, "log") /\ s.st.objs = t.st.objs /\ HeadHasCommit(s.st) /\ HeadHasCommit(t.st) /\ HeadId(s.st) = HeadId(t.st) =>
            \A k \in DOMAIN t.obs.log : k \in DOMAIN s.obs.log => LogIds(t.obs.log[k]) = LogIds(s.obs.log[k]))
    >>

AllClausesW(s, e, t, connS, connT) ==
    StateClausesW(s, e, t, connS, connT) \o CommitClausesW(s, e, t, connS, connT) \o StageClausesW(s, e, t, connS, connT)
        \o ResetClausesW(s, e, t, connS, connT) \o RefClausesW(s, e, t, connS, connT)
        \o ConfigClauses(s, e, t) \o ContentOnlyClauses(s, e, t)

(* connectivity of the two states is computed once per step and handed down as an argument:     *)
(* TLC evaluates an operator argument once but a LET definition at every reference               *)
AllClauses(s, e, t) == AllClausesW(s, e, t, Connected(s.st), Connected(t.st))

=============================================================================
