SPECIFICATION Spec
CONSTANTS
 Branches = {"m", "a", "b"}
 MaxCommits = 2
INVARIANTS C15_Recoverable C15_OldOrNew
CHECK_DEADLOCK FALSE
