---------------------------- MODULE GoitFSTrace ----------------------------
(***************************************************************************)
(* Binds the write-protocol model GoitFS to the code: every line of        *)
(* fsops.ndjson is one recorded (strace) run of a modifying command of the *)
(* real binary, abstracted to the model's operation kinds; the run is      *)
(* accepted iff its sequence is in the language of the command's plan      *)
(* (GoitFSLang!Accepts).  A rejected line means the model's plans no longer    *)
(* describe the code (MODEL-DRIFT information; the C15/C16 verdicts are    *)
(* computed on the recorded operations themselves, whatever their order).  *)
(***************************************************************************)
EXTENDS Integers, Sequences, FiniteSets, TLC, Json

INSTANCE GoitFSLang

Lines == ndJsonDeserialize("fsops.ndjson")

VARIABLE l
FInit == l = 1
FNext ==
    /\ l <= Len(Lines)
    /\ PrintT(ToJson([k |-> "P", i |-> l, cmd |-> Lines[l].cmd, ok |-> Accepts(Lines[l].cmd, Lines[l].ops)]))
    /\ l' = l + 1
FSpec == FInit /\ [][FNext]_l
FAccepted == TLCGet("stats").diameter - 1 = Len(Lines)
=============================================================================
