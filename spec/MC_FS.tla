---- MODULE MC_FS ----
(* Bounded instance of the write-protocol model GoitFS: 3 branch names, 2 commits, a crash at every position. *)
EXTENDS GoitFS
====
