SPECIFICATION Spec
VIEW StateView
CONSTANTS
 BytesOf <- MCBytesOf
 BlobIdFn <- MCBlobIdFn
 ObjOfTok <- MCObjOfTok
 Split <- MCSplit
 ParentDirs <- MCParentDirs
 Paths <- MCPaths
 ContentSet <- MCContentSet
 BranchNames <- MCBranchNames
 Msgs <- MCMsgs
 Subject <- MCSubject
 MaxCommits = 2
 FreshContent = "c1"
 Want = {"ALL"}
 ArgLists <- MCArgLists
 InitEvents <- MCInitEvents
 WithId = TRUE
 TZSet <- MCTZSet
 CfgKeys <- MCCfgKeys
 CfgValues <- MCCfgValues
 IgnoreVariants <- MCIgnoreVariants
 Cmds <- MCCmds
CONSTRAINT MCLevel
CHECK_DEADLOCK FALSE
ACTION_CONSTRAINT Emit
