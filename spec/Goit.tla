------------------------------- MODULE Goit -------------------------------
(***************************************************************************)
(* Operational model of a Goit repository: the persistent state of         *)
(* section 1 of DESIGN.md as one record `st` of the same shape as the      *)
(* states the projector decodes from disk, and one step function per       *)
(* command, written the way the command is meant to work (compute the tree *)
(* of the staging area, make a commit whose parent is the branch tip, move *)
(* the branch, append to the reflog ...).  One command = one atomic step;  *)
(* the linearization point is process exit.                                *)
(*                                                                         *)
(* TLC checks on every bounded instance (MC_* modules) that every          *)
(* transition of this model satisfies every GoitProps clause               *)
(* (StepOK below), i.e. that the declarative properties C01..C20 and the   *)
(* operational reading are consistent for every interleaving inside the    *)
(* bound.  Every transition TLC generates is emitted as one JSON line      *)
(* (Emit) and replayed by the harness against the real binary; the real    *)
(* steps are then judged by the same clauses (GoitTrace).                  *)
(*                                                                         *)
(* Object ids are strings built from the structure they name, which makes  *)
(* content addressing injective by construction (SHA-1 is uninterpreted).  *)
(***************************************************************************)
EXTENDS GoitAsIs, SequencesExt, Json

CONSTANTS
    Paths,          \* file paths (keys) the environment may write
    Split(_),       \* path key -> <<first component, rest>>, rest = "" for a plain name; defined for all suffixes
    ParentDirs(_),  \* path key -> set of directory keys above it
    ContentSet,     \* content tokens the environment writes
    BranchNames,    \* branch names used by branch / switch -c / branch -r
    Msgs,           \* commit messages (keys)
    Subject(_),     \* message -> its first line
    MaxCommits,     \* bound on the number of commits in one behaviour
    TZSet,          \* zone offsets (minutes east of UTC) under which commit is explored
    WithId,         \* TRUE: the initial state has a local identity configured
    CfgKeys,        \* set of <<section, key>> that `config` may set ({} = config not explored)
    CfgValues,      \* values for them
    IgnoreVariants, \* content token -> lines of a .goitignore with that content (<<>> = no such files)
    InitEvents,     \* events executed before exploration starts (they are part of every emitted path)
    FreshContent,   \* "" = a new file may get any content; otherwise new files get exactly this content (smaller instances)
    ArgLists,       \* set of path-argument sequences used by add / rm / restore
    Cmds            \* event kinds enabled in this instance

VARIABLES st,       \* the repository
          last,     \* the event just executed, with its result
          nk,       \* commits made so far (bounds the instance, names commit ids)
          hist      \* the events executed so far (history variable; hidden from the state by VIEW)

vars == <<st, last, nk, hist>>
StateView == <<st, nk>>

Zero == Hex40Zero

----------------------------------------------------------------------------
(* state construction *)

DirsOfWt(wt) == UNION {ParentDirs(p) : p \in DOMAIN wt}
ByPath(a, b) == LtB(Bytes(a.p), Bytes(b.p))
MkIdx(pairs) ==
    [present |-> TRUE, ok |-> TRUE, extra |-> 0, version |-> 1, count |-> Cardinality(pairs),
     ents |-> SetToSortSeq({[p |-> x[1], id |-> x[2]] : x \in pairs}, ByPath)]
NoIdx == [present |-> FALSE, ok |-> TRUE, extra |-> 0, version |-> 0, count |-> 0, ents |-> <<>>]

Digest(s) == <<s.repo, s.wt, s.idx, s.objs, s.refs, s.head, s.hlog, s.cfgl, s.cfgg, s.ign>>
Seal(s) == [s EXCEPT !.dirs = SetToSeq(DirsOfWt(s.wt)), !.dg = Digest(s)]

R(s2, res) == [st |-> Seal(s2), res |-> res]
Refuse(s) == [st |-> s, res |-> "refused"]

Fresh ==
    [repo |-> TRUE, wt |-> <<>>, dirs |-> <<>>, idx |-> NoIdx, objs |-> <<>>, refs |-> <<>>, refsodd |-> <<>>,
     head |-> [present |-> TRUE, ok |-> TRUE, branch |-> "main", raw |-> "ref:%20refs/heads/main"],
     hlog |-> <<>>, blog |-> <<>>,
     cfgl |-> [present |-> TRUE, ok |-> TRUE, sec |-> <<>>],
     cfgg |-> [present |-> FALSE, ok |-> TRUE, sec |-> <<>>],
     ign |-> [present |-> FALSE, lines |-> <<>>], meta |-> <<>>, dg |-> <<>>]

SetCfg(c, sec, k, v) ==
    LET old == IF sec \in DOMAIN c.sec THEN c.sec[sec] ELSE <<>>
        new == [x \in (DOMAIN old) \cup {k} |-> IF x = k THEN v ELSE old[x]]
    IN  [present |-> TRUE, ok |-> TRUE, sec |-> [s \in (DOMAIN c.sec) \cup {sec} |-> IF s = sec THEN new ELSE c.sec[s]]]

WithIdentity(s) == [s EXCEPT !.cfgl = SetCfg(SetCfg(s.cfgl, "user", "name", "Test%20User"), "user", "email", "t@example.com")]

Put(f, k, v) == [x \in (DOMAIN f) \cup {k} |-> IF x = k THEN v ELSE f[x]]
Drop(f, K) == [x \in (DOMAIN f) \ K |-> f[x]]

----------------------------------------------------------------------------
(* objects *)

BlobObj(c) == [k |-> "blob", d |-> c]
EntStr(e) == e.m \o "%20" \o e.n \o ":" \o e.id \o ";"
RECURSIVE ConcatAll(_)
ConcatAll(sq) == IF Len(sq) = 0 THEN "" ELSE Head(sq) \o ConcatAll(Tail(sq))
ByGitKey(a, b) == LtB(GitKeyB(a), GitKeyB(b))

(* TreeOf: the nested trees of a set of <<relative path, id>> pairs.  Returns the root id and *)
(* the objects (id -> tree object) of the root and all sub-trees.                            *)
RECURSIVE BuildTree(_)
BuildTree(P) ==
    LET files == {x \in P : Split(x[1])[2] = ""}
        deep == P \ files
        dnames == {Split(x[1])[1] : x \in deep}
        sub == [d \in dnames |-> BuildTree({<<Split(x[1])[2], x[2]>> : x \in {y \in deep : Split(y[1])[1] = d}})]
        ents == {[m |-> "100644", n |-> x[1], id |-> x[2]] : x \in files}
                  \cup {[m |-> "040000", n |-> d, id |-> sub[d].id] : d \in dnames}
        sorted == SetToSortSeq(ents, ByGitKey)
        id == "t(" \o ConcatAll([i \in 1..Len(sorted) |-> EntStr(sorted[i])]) \o ")"
        below == UNION {{<<o, sub[d].objs[o]>> : o \in DOMAIN sub[d].objs} : d \in dnames}
        all == below \cup {<<id, [k |-> "tree", ok |-> TRUE, ents |-> sorted]>>}
    IN  [id |-> id, objs |-> [o \in {x[1] : x \in all} |-> (CHOOSE x \in all : x[1] = o)[2]]]

Merge(f, g) == [x \in (DOMAIN f) \cup (DOMAIN g) |-> IF x \in DOMAIN f THEN f[x] ELSE g[x]]

SignOf(s, e) ==
    [ok |-> TRUE, raw |-> "", name |-> Eff(s, "name"), email |-> Eff(s, "email"), secs |-> e.t0, off |-> e.tz, offs |-> ""]

----------------------------------------------------------------------------
(* reflog: the journal and the view `goit reflog` prints (newest first) *)

LogRec(from, to, kind, msg) == [ok |-> TRUE, raw |-> "", from |-> from, to |-> to, kind |-> kind, msg |-> msg]
(* the journal of one branch (.goit/logs/refs/heads/<name>): begun by the command that creates the branch, extended by *)
(* commit and reset on it, begun anew under the new name by a rename, removed with the branch.  No listed property *)
(* speaks about these files; they are part of the model so that its agreement with the code covers them too        *)
(* (model_conformance, information).                                                                              *)
CreatedRec(id, fromBranch) == LogRec(Zero, id, "branch", "Created%20from%20" \o fromBranch)
BAppend(bl, b, rec) == [x \in (DOMAIN bl) \cup {b} |-> IF x = b THEN (IF b \in DOMAIN bl THEN Append(bl[b], rec) ELSE <<rec>>) ELSE bl[x]]
ModelView(s) ==
    [i \in 1..Len(s.hlog) |->
        LET r == s.hlog[Len(s.hlog) + 1 - i] IN
        [ok |-> TRUE, id7 |-> r.to, full |-> (IF r.to \in DOMAIN s.objs THEN r.to ELSE ""), n |-> i - 1, kind |-> r.kind, msg |-> r.msg]]
----------------------------------------------------------------------------
(* What the read-only commands print, transcribed from how the code computes it.  They are part of every model   *)
(* state's observation bundle, so StepOK checks on every transition of every instance that these computations    *)
(* satisfy the declarative report clauses (C06_ReadBack, C07_StagedReport, C10_List, C10_RevParse, C13_*, C14_Log),*)
(* and the tours compare them with what the real commands printed (model_conformance).                            *)

(* internal/store/ignore.go: every line of .goitignore becomes an UNANCHORED regular expression, QuoteMeta(line)   *)
(* with each '*' read as ".*": a target matches iff the pieces of the line between its stars occur in the target   *)
(* in that order.  The built-in pattern for the metadata directory is anchored at the start.                       *)
STAR == 42
RECURSIVE SplitStar(_, _, _)
SplitStar(b, i, cur) ==
    IF i > Len(b) THEN <<cur>>
    ELSE IF b[i] = STAR THEN <<cur>> \o SplitStar(b, i + 1, <<>>)
    ELSE SplitStar(b, i + 1, Append(cur, b[i]))
OccursAt(tgt, piece, o) == o + Len(piece) <= Len(tgt) /\ \A i \in 1..Len(piece) : tgt[o + i] = piece[i]
RECURSIVE PiecesIn(_, _, _)
PiecesIn(tgt, pieces, from) ==
    IF Len(pieces) = 0 THEN TRUE
    ELSE LET pc == Head(pieces)
             offs == {o \in from..(Len(tgt) - Len(pc)) : OccursAt(tgt, pc, o)}
         IN  offs # {} /\ PiecesIn(tgt, Tail(pieces), (CHOOSE o \in offs : \A o2 \in offs : o <= o2) + Len(pc))
LineMatches(ln, tgt) == PiecesIn(tgt, SplitStar(ln, 1, <<>>), 0)
IsIncludedB(s, tgt) ==
    \/ IsPrefixB(DotGoitB \o <<SLASH>>, tgt)
    \/ s.ign.present /\ \E i \in 1..Len(s.ign.lines) : LineMatches(Bytes(s.ign.lines[i]), tgt)
(* IsIncluded(path): a directory without a slash in its path is matched with a slash appended *)
DirTarget(d) == IF \E i \in 1..Len(Bytes(d)) : Bytes(d)[i] = SLASH THEN Bytes(d) ELSE Bytes(d) \o <<SLASH>>
(* internal/file GetFilePathsUnderDirectoryWithIgnore: a file is returned by the walk iff neither it nor one of the *)
(* directories above it is included in the ignore list                                                            *)
Walked(s, p) == ~IsIncludedB(s, Bytes(p)) /\ \A d \in ParentDirs(p) : ~IsIncludedB(s, DirTarget(d))

(* cmd/status.go *)
StatusImpl(s) ==
    LET tracked == IdxPaths(s.idx)
        walked == {p \in DOMAIN s.wt : Walked(s, p)}
        differs(p) == Obj(s, IdxId(s.idx, p)).d # s.wt[p]
        modified == {p \in walked \cap tracked : differs(p)}
                      \cup {p \in (tracked \cap DOMAIN s.wt) \ walked : IsIncludedB(s, Bytes(p)) /\ differs(p)}
        deleted == {p \in tracked : p \notin DOMAIN s.wt /\ p \notin DirsOfWt(s.wt)}
        D == Diff(HeadSnap(s), IdxPairs(s.idx))
    IN  [res |-> "ok",
         staged |-> SetToSeq({[c |-> x[1], p |-> x[2]] : x \in D}),
         unstaged |-> SetToSeq({[c |-> "modified", p |-> q] : q \in modified} \cup {[c |-> "deleted", p |-> q] : q \in deleted}),
         untracked |-> SetToSeq(walked \ tracked)]

(* cmd/log.go through LogImpl (defined below): the ids, each with the author and message of its commit *)
RECURSIVE LogLoopM(_, _, _, _, _, _)
LogLoopM(s, queue, visited, counter, maxCount, out) ==
    IF Len(queue) = 0 \/ counter + 1 > maxCount THEN out
    ELSE LET cur == Head(queue) IN
         IF cur \in visited THEN LogLoopM(s, Tail(queue), visited, counter + 1, maxCount, out)
         ELSE IF ~IsCommit(s, cur) THEN out
         ELSE LogLoopM(s, Tail(queue) \o Obj(s, cur).parents, visited \cup {cur}, counter + 1, maxCount, Append(out, cur))
LogObs(s, k) ==
    IF ~HeadHasCommit(s) THEN [res |-> "refused", k |-> k, ents |-> <<>>]
    ELSE LET ids == LogLoopM(s, <<HeadId(s)>>, {}, 0, IF k < 0 THEN 5 ELSE k, <<>>) IN
         [res |-> "ok", k |-> k,
          ents |-> [i \in 1..Len(ids) |->
                      LET c == Obj(s, ids[i]) IN
                      [id |-> ids[i], author |-> c.author.name \o "%20<" \o c.author.email \o ">", msg |-> c.msg,
                       dok |-> TRUE, secs |-> c.author.secs, off |-> c.author.off]]]

BranchListObs(s) ==
    [res |-> "ok", names |-> SetToSortSeq(Branches(s), LAMBDA a, b : LtB(Bytes(a), Bytes(b))),
     cur |-> IF HeadBranch(s) \in Branches(s) THEN <<HeadBranch(s)>> ELSE <<>>]
RevParseObs(s) ==
    [k \in {"HEAD"} \cup {"b:" \o b : b \in Branches(s)} |->
        IF k = "HEAD" THEN (IF HeadHasCommit(s) THEN [res |-> "ok", out |-> HeadId(s)] ELSE [res |-> "refused", out |-> ""])
        ELSE [res |-> "ok", out |-> s.refs[CHOOSE b \in Branches(s) : k = "b:" \o b]]]

ObsOf(s) ==
    [reflog |-> [res |-> (IF Len(s.hlog) > 0 THEN "ok" ELSE "refused"), ents |-> ModelView(s)],
     status |-> StatusImpl(s),
     ls |-> [res |-> "ok", ents |-> s.idx.ents],
     branches |-> BranchListObs(s),
     revparse |-> RevParseObs(s),
     log |-> [d |-> LogObs(s, -1), k0 |-> LogObs(s, 0), k1 |-> LogObs(s, 1), k2 |-> LogObs(s, 2)]]
Line(s) == [st |-> s, obs |-> ObsOf(s)]

----------------------------------------------------------------------------
(* environment: edits of the working tree *)

CanWrite(s, p) == p \notin DirsOfWt(s.wt) /\ ParentDirs(p) \cap DOMAIN s.wt = {}
IgnFile == ".goitignore"
EnvWrite(s, p, c) ==
    IF p = IgnFile /\ c \in DOMAIN IgnoreVariants
    THEN R([s EXCEPT !.wt = Put(s.wt, p, c), !.ign = [present |-> TRUE, lines |-> IgnoreVariants[c]]], "ok")
    ELSE R([s EXCEPT !.wt = Put(s.wt, p, c)], "ok")
EnvRemove(s, p) ==
    IF p = IgnFile THEN R([s EXCEPT !.wt = Drop(s.wt, {p}), !.ign = [present |-> FALSE, lines |-> <<>>]], "ok")
    ELSE R([s EXCEPT !.wt = Drop(s.wt, {p})], "ok")
EnvRmdir(s, d) == R([s EXCEPT !.wt = Drop(s.wt, {p \in DOMAIN s.wt : d \in ParentDirs(p)})], "ok")

----------------------------------------------------------------------------
(* commands *)

IsDirOnDisk(s, a) == a = "." \/ a \in DirsOfWt(s.wt)
Selected(s, args, p) == \E i \in 1..Len(args) : args[i] = p \/ (IsDirOnDisk(s, args[i]) /\ SelBy(args[i], p))

DoAdd(s, args) ==
    LET A == SeqToSet(args)
        unknown == \E a \in A : ~(a \in DOMAIN s.wt \/ IsDirOnDisk(s, a) \/ Tracked(s, a))
        old == IdxPairs(s.idx)
        stage == {p \in DOMAIN s.wt : Selected(s, args, p) /\ ~InMeta(p) /\ ~MustIgnore(s, p)}
        gone == {p \in IdxPaths(s.idx) : p \in A /\ p \notin DOMAIN s.wt /\ ~IsDirOnDisk(s, p)}
        new == {x \in old : x[1] \notin stage \cup gone} \cup {<<p, BlobIdOf(s.wt[p])>> : p \in stage}
        blobs == [id \in {BlobIdOf(s.wt[p]) : p \in stage} |-> BlobObj(CHOOSE c \in Range(s.wt) : BlobIdOf(c) = id)]
    IN  IF Len(args) = 0 \/ unknown THEN Refuse(s)
        ELSE IF new = old THEN R(s, "ok")
        ELSE R([s EXCEPT !.idx = MkIdx(new), !.objs = Merge(s.objs, blobs)], "ok")

DoRm(s, args) ==
    LET A == SeqToSet(args)
        Rm == SelAll(s, A)
    IN  IF Len(args) = 0 THEN R(s, "ok")
        ELSE IF \E a \in A : SelTracked(s, a) = {} THEN Refuse(s)
        ELSE R([s EXCEPT !.idx = MkIdx({x \in IdxPairs(s.idx) : x[1] \notin Rm}), !.wt = Drop(s.wt, Rm)], "ok")

DoCommitT(s, e, n, bt) ==
    LET hb == HeadBranch(s)
        D == Diff(HeadSnap(s), IdxPairs(s.idx))
        parent == IF hb \in Branches(s) THEN <<s.refs[hb]>> ELSE <<>>
        cid == "k" \o ToString(n + 1)
        co == [k |-> "commit", ok |-> TRUE, tree |-> bt.id, parents |-> parent, author |-> SignOf(s, e), committer |-> SignOf(s, e),
               msg |-> e.msg, nl |-> TRUE, raw |-> "", d |-> "d_" \o cid]
        from == IF hb \in Branches(s) THEN s.refs[hb] ELSE Zero
    IN  IF ~IdentitySet(s) \/ D = {} THEN Refuse(s)
        ELSE R([s EXCEPT !.objs = Merge(Merge(s.objs, bt.objs), Put(<<>>, cid, co)),
                         !.refs = Put(s.refs, hb, cid),
                         !.hlog = Append(s.hlog, LogRec(from, cid, "commit", Subject(e.msg))),
                         !.blog = BAppend(s.blog, hb, LogRec(from, cid, "commit", Subject(e.msg)))], "ok")

DoCommit(s, e, n) == DoCommitT(s, e, n, BuildTree(IdxPairs(s.idx)))

BlobData(s, id) == Obj(s, id).d

DoRestore(s, args) ==
    LET A == SeqToSet(args)
        Rs == SelAll(s, A)
    IN  IF Len(args) = 0 \/ \E a \in A : SelTracked(s, a) = {} THEN Refuse(s)
        ELSE R([s EXCEPT !.wt = [p \in (DOMAIN s.wt) \cup Rs |-> IF p \in Rs THEN BlobData(s, IdxId(s.idx, p)) ELSE s.wt[p]]], "ok")

DoRestoreStaged(s, args) ==
    LET A == SeqToSet(args)
        H == HeadSnap(s)
        Rs == UNION {SelStaged(Line(s), a) : a \in A}
        new == {x \in IdxPairs(s.idx) : x[1] \notin Rs} \cup {x \in H : x[1] \in Rs}
    IN  IF Len(args) = 0 \/ ~HeadHasCommit(s) \/ \E a \in A : SelStaged(Line(s), a) = {} THEN Refuse(s)
        ELSE IF new = IdxPairs(s.idx) THEN R(s, "ok")
        ELSE R([s EXCEPT !.idx = MkIdx(new)], "ok")

DoReset(s, e) ==
    LET ln == Line(s)
        hb == HeadBranch(s)
        tgt == TargetId(ln, e)
        snap == Flatten(s, Obj(s, tgt).tree)
        s1 == [s EXCEPT !.refs = Put(s.refs, hb, tgt),
                        !.hlog = Append(s.hlog, LogRec(s.refs[hb], tgt, "reset", "moving%20to%20" \o e.arg)),
                        !.blog = BAppend(s.blog, hb, LogRec(s.refs[hb], tgt, "reset", "moving%20to%20" \o e.arg))]
        s2 == IF e.mode = "soft" THEN s1 ELSE [s1 EXCEPT !.idx = MkIdx(snap)]
        s3 == IF e.mode # "hard" THEN s2
              ELSE [s2 EXCEPT !.wt = [p \in (DOMAIN s.wt) \cup PathsOf(snap) |->
                                        IF p \in PathsOf(snap) THEN BlobData(s, (CHOOSE x \in snap : x[1] = p)[2]) ELSE s.wt[p]]]
    IN  IF ~(PosValid(ln, e) /\ e.mode \in ResetModes /\ HeadHasCommit(s)) THEN Refuse(s) ELSE R(s3, "ok")

DoBranch(s, nm) ==
    IF ~HeadHasCommit(s) \/ nm \in Branches(s) THEN Refuse(s)
    ELSE R([s EXCEPT !.refs = Put(s.refs, nm, HeadId(s)),
                     !.blog = Put(s.blog, nm, <<CreatedRec(HeadId(s), HeadBranch(s))>>)], "ok")

DoBranchDelete(s, nm) ==
    IF nm \notin Branches(s) \/ nm = HeadBranch(s) THEN Refuse(s)
    ELSE R([s EXCEPT !.refs = Drop(s.refs, {nm}), !.blog = Drop(s.blog, {nm})], "ok")

SetHead(s, nm) == [s EXCEPT !.head = [present |-> TRUE, ok |-> TRUE, branch |-> nm, raw |-> "ref:%20refs/heads/" \o nm]]

DoRename(s, nm) ==
    LET hb == HeadBranch(s)
        id == HeadId(s)
        msg == "renamed%20refs/heads/" \o hb \o "%20to%20refs/heads/" \o nm
        s1 == SetHead([s EXCEPT !.refs = Put(Drop(s.refs, {hb}), nm, id)], nm)
    IN  IF ~HeadHasCommit(s) \/ nm \in Branches(s) THEN Refuse(s)
        ELSE R([s1 EXCEPT !.hlog = s.hlog \o <<LogRec(id, id, "branch", msg), LogRec(id, id, "branch", msg)>>,
                          !.blog = Put(Drop(s.blog, {hb}), nm,
                                       <<CreatedRec(id, hb),
                                         LogRec(id, id, "branch", "renamed%20refs/heads/" \o hb \o "%20refs/heads/" \o nm)>>)], "ok")

DoSwitch(s, nm) ==
    LET s1 == SetHead(s, nm)
        id == s.refs[nm]
    IN  IF nm \notin Branches(s) THEN Refuse(s)
        ELSE R([s1 EXCEPT !.hlog = Append(s.hlog, LogRec(id, id, "checkout", "moving%20from%20" \o HeadBranch(s) \o "%20to%20" \o nm))], "ok")

DoSwitchCreate(s, nm) ==
    LET id == HeadId(s)
        s1 == SetHead([s EXCEPT !.refs = Put(s.refs, nm, id)], nm)
    IN  IF ~HeadHasCommit(s) \/ nm \in Branches(s) THEN Refuse(s)
        ELSE R([s1 EXCEPT !.hlog = Append(s.hlog, LogRec(id, id, "checkout", "moving%20from%20" \o HeadBranch(s) \o "%20to%20" \o nm)),
                          !.blog = Put(s.blog, nm, <<CreatedRec(id, HeadBranch(s))>>)], "ok")

DoUpdateRef(s, e) ==
    IF ~(e.exact /\ e.branch \in Branches(s) /\ IsCommit(s, e.id)) THEN Refuse(s)
    ELSE R(SetHead([s EXCEPT !.refs = Put(s.refs, e.branch, e.id)], e.branch), "ok")

DoConfig(s, e) ==
    IF "global" \in DOMAIN e /\ e.global THEN R([s EXCEPT !.cfgg = SetCfg(s.cfgg, e.sec, e.k, e.value)], "ok")
    ELSE R([s EXCEPT !.cfgl = SetCfg(s.cfgl, e.sec, e.k, e.value)], "ok")

Step(s, e, n) ==
    CASE e.ev = "write" -> EnvWrite(s, e.p, e.c)
      [] e.ev = "remove" -> EnvRemove(s, e.p)
      [] e.ev = "rmdir" -> EnvRmdir(s, e.p)
      [] e.ev = "add" -> DoAdd(s, e.paths)
      [] e.ev = "rm" -> DoRm(s, e.paths)
      [] e.ev = "commit" -> DoCommit(s, e, n)
      [] e.ev = "restore" -> DoRestore(s, e.paths)
      [] e.ev = "restores" -> DoRestoreStaged(s, e.paths)
      [] e.ev = "reset" -> DoReset(s, e)
      [] e.ev = "branch" -> DoBranch(s, e.name)
      [] e.ev = "branchd" -> DoBranchDelete(s, e.name)
      [] e.ev = "branchr" -> DoRename(s, e.name)
      [] e.ev = "switch" -> DoSwitch(s, e.name)
      [] e.ev = "switchc" -> DoSwitchCreate(s, e.name)
      [] e.ev = "updateref" -> DoUpdateRef(s, e)
      [] e.ev = "config" -> DoConfig(s, e)

----------------------------------------------------------------------------
(* events offered in a state *)

Base(ev, cls) == [ev |-> ev, cls |-> cls, dom |-> TRUE, tz |-> 540, t0 |-> 1000 + nk, t1 |-> 1000 + nk]
EnvEvents ==
    (IF "write" \in Cmds
       THEN UNION {{Base("write", "env") @@ [p |-> p, c |-> c] :
                       c \in (IF FreshContent = "" THEN ContentSet
                              ELSE IF p \in DOMAIN st.wt THEN ContentSet \ {st.wt[p]} ELSE {FreshContent})}
                   : p \in {q \in Paths : CanWrite(st, q)}}
       ELSE {})
    \cup (IF "remove" \in Cmds THEN {Base("remove", "env") @@ [p |-> p] : p \in DOMAIN st.wt} ELSE {})
    \cup (IF "rmdir" \in Cmds THEN {Base("rmdir", "env") @@ [p |-> d] : d \in DirsOfWt(st.wt)} ELSE {})
PathEvents ==
    UNION {IF k \in Cmds THEN {Base(k, "cmd") @@ [paths |-> a] : a \in ArgLists} ELSE {} : k \in {"add", "rm", "restore", "restores"}}
CommitEvents ==
    IF "commit" \in Cmds /\ nk < MaxCommits
    THEN {[tz |-> z] @@ Base("commit", "cmd") @@ [msg |-> m, msg1 |-> Subject(m)] : m \in Msgs, z \in TZSet}
    ELSE {}
ResetEvents ==
    IF "reset" \in Cmds
    THEN {Base("reset", "cmd") @@ [mode |-> m, arg |-> "HEAD@{" \o ToString(n) \o "}", wf |-> TRUE, n |-> n]
            : m \in {"soft", "mixed", "hard"}, n \in 0..(Len(st.hlog) + 1)}
    ELSE {}
NameEvents ==
    UNION {IF k \in Cmds THEN {Base(k, "cmd") @@ [name |-> b] : b \in BranchNames} ELSE {} : k \in {"branch", "branchd", "branchr", "switch", "switchc"}}
UpdateRefEvents ==
    IF "updateref" \in Cmds
    THEN {Base("updateref", "cmd") @@ [ref |-> "refs/heads/" \o b, exact |-> TRUE, branch |-> b, id |-> i]
            : b \in BranchNames, i \in DOMAIN st.objs \cup {"deadbeef"}}
    ELSE {}

ConfigEvents ==
    IF "config" \in Cmds
    THEN {Base("config", "cmd") @@ [global |-> g, key |-> x[1] \o "." \o x[2], value |-> v, sec |-> x[1], k |-> x[2]]
            : g \in BOOLEAN, x \in CfgKeys, v \in CfgValues}
    ELSE {}
IgnoreEvents ==
    IF "ignore" \in Cmds
    THEN {Base("write", "env") @@ [p |-> IgnFile, c |-> c] : c \in {x \in DOMAIN IgnoreVariants : IgnFile \notin DOMAIN st.wt \/ st.wt[IgnFile] # x}}
    ELSE {}

Events == EnvEvents \cup PathEvents \cup CommitEvents \cup ResetEvents \cup NameEvents \cup UpdateRefEvents
            \cup ConfigEvents \cup IgnoreEvents

----------------------------------------------------------------------------
(* the state after a fixed prefix of events (successful commits are counted for the commit ids) *)
RECURSIVE RunPrefix(_, _, _)
RunPrefix(s, n, evs) ==
    IF Len(evs) = 0 THEN [st |-> s, nk |-> n]
    ELSE LET r == Step(s, Head(evs), n) IN
         RunPrefix(r.st, IF Head(evs).ev = "commit" /\ r.res = "ok" THEN n + 1 ELSE n, Tail(evs))
InitState == RunPrefix(Seal(IF WithId THEN WithIdentity(Fresh) ELSE Fresh), 0, InitEvents)

Init ==
    /\ st = InitState.st
    /\ last = [ev |-> "init", cls |-> "cmd", res |-> "ok", dom |-> TRUE]
    /\ nk = InitState.nk
    /\ hist = InitEvents

(* (r is an argument, not a LET: TLC evaluates an argument once but a LET definition at every reference) *)
Apply(e, r) ==
    /\ st' = r.st
    /\ last' = e @@ [res |-> r.res]
    /\ nk' = IF e.ev = "commit" /\ r.res = "ok" THEN nk + 1 ELSE nk
    /\ hist' = Append(hist, e)

Next == \E e \in Events : Apply(e, Step(st, e, nk))

Spec == Init /\ [][Next]_vars

----------------------------------------------------------------------------
(* The model satisfies the declarative clauses on every step (action property). *)
FailedIn(cs) == {cs[i].n : i \in {j \in 1..Len(cs) : cs[j].a /\ ~cs[j].ok}}
FailedOn(s, e, t) == FailedIn(AllClauses(s, e, t))
NoneFailed(F, e) == F = {} \/ (PrintT(<<"FAILED-CLAUSES", F, e>>) /\ FALSE)
StepOK == [][NoneFailed(FailedOn(Line(st), last', Line(st')), last')]_vars

(* invariants of the model (design level) *)
InvConnected == Connected(st)
InvCanonical == IdxCanonical(st.idx)
InvNoMeta == \A p \in IdxPaths(st.idx) : ~InMeta(p)
InvRoundTrip == HeadHasCommit(st) => TreeWellFormed(Obj(st, HeadTree(st)))
(* flattening the tree built from the staging area gives back the staging area, for every reachable staging area *)
TreeRoundTrip(bt) == Flatten([st EXCEPT !.objs = Merge(st.objs, bt.objs)], bt.id) = IdxPairs(st.idx)
InvTreeOf == TreeRoundTrip(BuildTree(IdxPairs(st.idx)))

----------------------------------------------------------------------------
(* Implementation-shaped transcriptions.  The step functions above say WHAT a command computes; the two       *)
(* operators below transcribe HOW the code computes it, and TLC checks on every reachable state of every       *)
(* instance that both agree.                                                                                   *)

(* cmd/writeTree.go writeTreeObject: ONE pass over the byte-sorted staged entries, grouping runs with the same *)
(* first path component into recursively written sub-trees; tree entries are appended in the order met, never *)
(* sorted.  That the result is the Git-ordered nested tree (BuildTree) is the fact the single pass relies on. *)
TreeRec(ents, below) ==
    LET id == "t(" \o ConcatAll([i \in 1..Len(ents) |-> EntStr(ents[i])]) \o ")"
    IN  [id |-> id, objs |-> Merge(below, Put(<<>>, id, [k |-> "tree", ok |-> TRUE, ents |-> ents]))]
RECURSIVE WriteTreeImpl(_)
RECURSIVE WTLoop(_, _, _, _, _, _)
(* entries: sequence of [p, id]; i: next position; dirName ("" = none), buf: entries collected for dirName; *)
(* data: tree entries appended so far; below: objects of the sub-trees written so far                       *)
FlushDir(dirName, buf, data, below) ==
    LET sub == WriteTreeImpl(buf)
    IN  [data |-> Append(data, [m |-> "040000", n |-> dirName, id |-> sub.id]), below |-> Merge(below, sub.objs)]
WTLoop(entries, i, dirName, buf, data, below) ==
    IF i > Len(entries) THEN
        (IF dirName # "" THEN LET f == FlushDir(dirName, buf, data, below) IN TreeRec(f.data, f.below)
         ELSE TreeRec(data, below))
    ELSE LET en == entries[i]
             sp == Split(en.p) IN
         IF sp[2] = "" THEN      \* entry is not in a sub-directory
             (IF dirName # "" THEN
                  LET f == FlushDir(dirName, buf, data, below) IN
                  WTLoop(entries, i + 1, "", <<>>, Append(f.data, [m |-> "100644", n |-> en.p, id |-> en.id]), f.below)
              ELSE WTLoop(entries, i + 1, "", <<>>, Append(data, [m |-> "100644", n |-> en.p, id |-> en.id]), below))
         ELSE IF dirName = "" THEN WTLoop(entries, i + 1, sp[1], <<[p |-> sp[2], id |-> en.id]>>, data, below)
         ELSE IF dirName = sp[1] THEN WTLoop(entries, i + 1, dirName, Append(buf, [p |-> sp[2], id |-> en.id]), data, below)
         ELSE LET f == FlushDir(dirName, buf, data, below) IN
              WTLoop(entries, i + 1, sp[1], <<[p |-> sp[2], id |-> en.id]>>, f.data, f.below)
WriteTreeImpl(entries) == WTLoop(entries, 1, "", <<>>, <<>>, <<>>)

SameTree(a, b) == a.id = b.id /\ a.objs = b.objs
InvWriteTreeImpl == SameTree(WriteTreeImpl(st.idx.ents), BuildTree(IdxPairs(st.idx)))

(* cmd/log.go walkHistory: FIFO queue seeded with HEAD, visited set, loop counter compared with maxCount. *)
RECURSIVE LogLoop(_, _, _, _, _, _)
LogLoop(s, queue, visited, counter, maxCount, out) ==
    IF Len(queue) = 0 \/ counter + 1 > maxCount THEN out
    ELSE LET cur == Head(queue) IN
         IF cur \in visited THEN LogLoop(s, Tail(queue), visited, counter + 1, maxCount, out)
         ELSE IF ~IsCommit(s, cur) THEN out
         ELSE LogLoop(s, Tail(queue) \o Obj(s, cur).parents, visited \cup {cur}, counter + 1, maxCount, Append(out, cur))
LogImpl(s, k) == LogLoop(s, <<HeadId(s)>>, {}, 0, k, <<>>)
InvLogImpl == HeadHasCommit(st) => \A k \in 0..(nk + 2) : LogImpl(st, k) = TakeN(Chain(st, HeadId(st)), k)

(* Edge emitter: one JSON line per generated transition, consumed by the tour replayer.  hist is the *)
(* representative path of the source state (VIEW hides it), so the emitted paths are prefix-closed: *)
(* the harness executes every edge exactly once by walking the trie of paths.  exp is what the      *)
(* model expects, for the model-conformance report (never a verdict).                               *)
Emit == PrintT(ToJson([k |-> "E", path |-> hist',
                       exp |-> [res |-> last'.res, idxp |-> IdxPaths(st'.idx), wt |-> st'.wt,
                                br |-> Branches(st'), head |-> st'.head.branch, nlog |-> Len(st'.hlog),
                                blog |-> [b \in DOMAIN st'.blog |-> [n |-> Len(st'.blog[b]), kind |-> st'.blog[b][Len(st'.blog[b])].kind]],
                                status |-> StatusImpl(st'), blist |-> BranchListObs(st').names,
                                logd |-> LogIds(LogObs(st', -1))]]))
LevelBound(n) == Len(hist) < n      \* depth bound on the representative path (independent of the number of workers)
=============================================================================
