SPECIFICATION Spec
CONSTANTS
 Branches = {"m", "a", "b"}
 MaxCommits = 2
 RenameFirst = TRUE
INVARIANTS C15_Recoverable C15_OldOrNew
CHECK_DEADLOCK FALSE
