#!/usr/bin/env python3
"""Writes /verif/MANIFEST.json (development-time helper; the result is committed)."""
import json, os
here = os.path.dirname(os.path.dirname(os.path.abspath(__file__)))
props = [json.loads(l) for l in open(os.path.join(here, 'properties.jsonl'))]

MC = "model_checking"
FE = "fault_enumeration"
common_note = ("Trusted base: the projector (independent Go decoders of the documented on-disk formats; crypto/sha1, compress/zlib), the stdout parsers, "
               "TLC 1.8.0 and the JSON module. SHA-1/zlib are uninterpreted in TLA+ (ids are looked up, never computed). Bounded: exhaustive only inside "
               "the MC_* bounds, seeded random beyond; verdicts come only from recorded behaviour of the binary built from /repo's working tree.")
levels = {
 "C01": (MC, "TLC-judged conformance: every step of TLC-generated, random and scenario executions of the real binary is projected and judged by TLC against the C01 clauses (C01_Bad, C01_Immutable, C01_HashObject, C01_CatFile); the store state machine comes from the bounded model MC_Stage, the universal claim over byte strings is sampled per content class (sizes to 70 KiB quick / MiB thorough)", "6 C01"),
 "C02": (MC, "TLC checks that the operational model Goit.tla satisfies the C02 clauses on every transition of MC_Stage; every generated transition is replayed on the real binary and judged by TLC (C02_OneNew, C02_Snapshot through independently decoded trees, C02_Parent, C02_Move, C02_Who), plus random histories over the sibling/nested/odd name families", "6 C02"),
 "C03": (MC, "C03_Connected as a preserved invariant of the model (MC_Refs, MC_Stage) and as a clause judged by TLC on every real step, including hostile arguments (ids of blobs/trees, unknown ids, path-like branch names, malformed reset positions)", "6 C03"),
 "C04": (MC, "AddExact/RmExact effect clauses, per path, judged by TLC on every real add/rm step against the whole projected state; argument lists from the model (files, directories, '.', deleted-but-tracked, repeated, unknown) and random", "6 C04"),
 "C05": (MC, "reset --mixed/--hard index = independent flattening of the target commit's trees; cat-file -p of every new tree = its decoded children; over name families with spaces, suffix siblings, punctuation, non-ASCII, every name length 1..66 and around 128/255 (tree lines of exactly 32k bytes, trees and index above 4096 bytes) and the empty snapshot", "6 C05"),
 "C06": (MC, "index canonical form as preserved invariant; ls-files = independent decoding; tracked path / tracked directory selection clauses on add, rm, restore", "6 C06"),
 "C07": (MC, "status 'Changes to be committed' = Diff(HEAD snapshot, staging area) computed by TLC from independently decoded trees, in every state of every execution; clean after commit; nothing-to-commit refused; any staged difference commits", "6 C07"),
 "C08": (MC, "reset target = the entry `reflog` shows at position n in the pre-state; per-mode clauses on branch, index (the target snapshot, in canonical order, read back by ls-files), working tree; refusal of malformed/out-of-range positions; model MC_Refs/MC_Stage enumerates every position and mode in every reachable history inside the bound", "6 C08"),
 "C09": (MC, "restore / restore --staged exactness clauses on every real step (selected paths get staged/HEAD content, nothing else changes), arguments: file, existing directory, deleted file, deleted directory, unknown, repeated, a directory and one of its members, other spellings of clean paths (./f, d/./g, d//g)", "6 C09"),
 "C10": (MC, "branch/HEAD state machine: MC_Refs explores every interleaving of create/delete/rename/switch/switch -c/update-ref/commit/reset inside the bound, TLC checks the C10 clauses on the model and on the replay of every edge on the real binary; branch --list and rev-parse compared with the stored state in every state; branch/switch/update-ref command lines from the CLI grammar (surplus and combined arguments): whatever is refused changes nothing (C10_RefusedNothing)", "6 C10"),
 "C11": (MC, "reflog view before/after every command: append-only shift, newest entry = HEAD commit with the right kind after commit/switch/reset, readable after rename/delete and for every message class and zone offset", "6 C11"),
 "C12": (MC, "all 105 quarter-hour offsets (generated TZif files) x identity and message classes: stored sign lines parse strictly, offset/instant match the run, log and cat-file read back the same; e-mail addresses and names drawn from grammars (every punctuation character), message lines and names around 4096 and 8192 bytes", "6 C12"),
 "C13": (MC, "status modified/deleted/untracked sections = the sets computed by TLC from the projected index, blobs and working tree (content tokens, no hashing), with .goitignore latitude; touch and identical rewrite leave the report unchanged; the model's transcription of cmd/status.go (StatusImpl, with the ignore matching of internal/store/ignore.go) is checked by TLC against the same clauses on every transition of the bounded instances", "6 C13"),
 "C14": (MC, "log -n k (k in 0..9 and default) = first min(k, len) elements of the first-parent chain computed by TLC from decoded commits, in every state; depends only on objects and HEAD commit; the transcription of cmd/log.go's queue (LogImpl/LogObs) is checked against TakeN(Chain, k) on every reachable model state", "6 C14"),
 "C15": (FE, "every crash point (prefix of the strace-recorded file-system modifications) of every modifying command over scenario + random pre-states is materialised, projected and judged by TLC against C15_Loads, C15_Refs, C15_Reach, C15_OldOrNew; after every crash point the interrupted command is given again and that step is judged too (C15_RetryNoCrash, C15_RetryUsable); recording self-checked, sample cross-checked by really killing the process; the write protocols are model-checked at design level (GoitFS/MC_FS: a crash at every position of every interleaving; MC_FSOld, the protocol branch -r had before its repair, is the negative control) and every recorded run is checked to be in the language of its command's plan", "6 C15"),
 "C16": (FE, "every single fault position (open/create/read/readdir/write/mkdir/rename/remove, stat excluded) of every modifying command, injected with strace (calls on files with stable names by path-restricted tracing, calls on temporary files by per-thread ordinal compared modulo their names; a fault that lands on another repository call is judged where it happened), judged by TLC against C16_NoCrash, C16_HonestSuccess (all functional clauses + same result, journal included, as the fault-free run), C16_Connected, C16_NoBadAdvance", "6 C16"),
 "C17": (MC, "no index path inside .goit, no ignored path staged or listed, nothing hidden without .goitignore, metadata bytes untouched by restore/reset --hard; argument forms '.', parent directory, ignored path itself, nested; clauses judged by TLC on every step", "6 C17"),
 "C18": (MC, "CLI grammar (22 sub-command forms x flag subsets x 0..3 arguments from valid/missing/surplus/malformed/non-existent/metacharacter classes) against states reached by the model tour and random histories, incl. fresh repository, emptied index, empty snapshot, renamed branch: result in {ok, refused}, refused => byte-identical repository", "6 C18"),
 "C19": (FE, "every truncation, every single-byte deletion, single-byte substitutions, field-level damage of the text files (fields shortened, lengthened, split, joined), object swaps, crafted objects and generator-made arbitrary bytes for object, index, HEAD, branch, config and reflog files of repositories Goit produced; every read-only command, cat-file -t/-p, restore, reset --hard and commit run on each under a timeout, an address-space limit and a peak-RSS bound; judged by TLC (C19_Total, C19_NoWrongData incl. the kind cat-file -t prints)", "6 C19"),
 "C20": (MC, "config write = exact update of the parsed file of that scope, other scope untouched, file parses strictly; author of the next commit = local-before-global identity; commit gated on both name and e-mail; values with '=', brackets, '#', ';', quotes, every other punctuation character, non-ASCII, values around 4096 and 8192 bytes", "6 C20"),
}
technique = {
 MC: "TLA+ spec (Goit.tla + GoitProps clauses) model-checked by TLC on bounded instances; TLC-generated transitions and random/scenario runs replayed on the real goit binary; every recorded step judged by TLC (trace validation against the spec's clauses)",
 FE: "TLA+ clauses (GoitFSProps) evaluated by TLC on states enumerated from strace-recorded executions of the real binary (crash prefixes / injected faults / file damage)",
}
checks = []
for p in props:
    pid = p["id"]
    lvl, text, ref = levels[pid]
    checks.append({
        "property_id": pid,
        "quick_cmd": "bin/check %s quick" % pid,
        "thorough_cmd": "bin/check %s thorough" % pid,
        "evidence_file": "/verif/evidence/%s.json" % pid,
        "replay_cmd_template": "harness/bin/verif replay {path}",
        "engine": "goit-tla",
        "level_claimed": {"category": lvl, "text": text, "design_ref": "DESIGN.md section " + ref},
        "level_note": common_note,
        "technique": technique[lvl],
    })
m = {
 "version": 1,
 "setup_cmd": "bin/setup",
 "hooks": {
   "guard": "verif",
   "enable": "no source hooks are needed: checks observe the CLI, the on-disk formats and (for C15/C16) the system calls through strace; the binary is built with plain `go build` from /repo's working tree",
   "baseline_off_cmd": "cd /repo && GOFLAGS=-mod=mod GOPROXY=off go test -json -vet=off -count=1 -timeout 25m ./...",
   "source_commits": [],
   "add_only": True,
 },
 "engines": [{"name": "goit-tla", "path": "/verif/spec + /verif/harness", "serves_properties": [p["id"] for p in props],
              "kind_free_text": "explicit TLA+ specification (operational model, property clauses, known-deviation module, trace judge) + TLC; Go harness that builds goit from /repo, drives it (TLC-generated transitions, seeded random, scenarios, strace crash/fault/damage enumeration), projects the on-disk state with independent decoders and has TLC judge every recorded step"}],
 "checks": checks,
 "notes": "Exit codes: 0 held (KNOWN-FINDING lines possible), 1 violation (each re-executed from its replay file before it is printed), 2 infrastructure failure (never a verdict). VERIF_SEED seeds every random choice. VERIF_REPO overrides /repo (used only for self-tests against scratch worktrees). Known findings: /verif/known_findings.json (none open at present; repaired defects are listed there as `fixed`). Evidence of a run with VERIF_REPO set to another tree is written to scratch, never to /verif/evidence.",
 "not_applicable": [],
}
json.dump(m, open(os.path.join(here, 'MANIFEST.json'), 'w'), indent=1)
print("wrote MANIFEST.json with", len(checks), "checks")
