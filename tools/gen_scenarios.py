#!/usr/bin/env python3
"""Generates the size-boundary scenarios of the regression corpus (scenarios/*.json).

The random drivers sample names, messages and values of moderate length; code that reads through fixed-size
buffers (bufio 4096, chunked readers of 32 bytes, 16-bit length fields, 64 KiB scanner tokens) goes wrong only
when a record ends exactly on, or crosses, such a boundary.  These scenarios sweep the lengths instead of
sampling them: every name length 1..66 and around 128/256, tree lines of exactly 32*k bytes for files and
directories, an index and trees larger than 4096 and 8192 bytes, message lines and configuration values
around 4096 and 8192 bytes.  All of it stays inside the quantifier domains of the properties
(legal names, "lines up to a few KiB", printable values with inner single spaces).
"""
import json, os, sys

OUT = os.path.join(os.path.dirname(os.path.abspath(__file__)), "..", "scenarios")


def esc(s):
    out = []
    for b in s.encode():
        if 0x21 <= b <= 0x7e and chr(b) not in '%"\\':
            out.append(chr(b))
        else:
            out.append("%%%02X" % b)
    return "".join(out)


def head(name="Test User", email="t@example.com"):
    return [{"ev": "init"}, {"ev": "config", "key": "user.name", "value": esc(name)},
            {"ev": "config", "key": "user.email", "value": esc(email)}]


def w(p, data):
    return {"ev": "write", "p": esc(p), "data": data, "old": False}


def save(name, props, steps, tz=540):
    for st in steps:   # messages and paths are escaped keys: a raw blank means esc() was forgotten
        for k in ("msg", "p", "name"):
            assert " " not in str(st.get(k, "")), (name, st)
    json.dump({"name": name, "props": props, "tz": tz, "steps": steps}, open(os.path.join(OUT, name + ".json"), "w"), indent=0)
    print(name, len(steps), "steps")


def nm(L, tag="n"):
    """a name of exactly L bytes, distinct per (L, tag)"""
    base = "%s%d" % (tag, L)
    if L <= len(base):
        return ("abcdefghijklmnopqrstuvwxyz"[L % 26] * L) if tag == "n" else (tag * L)[:L]
    return base + "_" * (L - len(base))


def name_lengths():
    steps = head()
    lens = list(range(1, 67)) + [95, 96, 97, 120, 121, 122, 127, 128, 129, 200, 254, 255]
    files = []
    for L in lens:
        p = nm(L)
        files.append(p)
        steps.append(w(p, "c%d\n" % L))
    # directories whose tree line "40000 <name>\0" is 30..34 bytes, each with files whose lines are 31..33 bytes
    for L in range(24, 29):
        d = nm(L, "D")
        for fl in (24, 25, 26):
            p = d + "/" + nm(fl, "f")
            files.append(p)
            steps.append(w(p, "d%d.%d\n" % (L, fl)))
    # a deep path with long components
    deep = "/".join(nm(57, "p%d" % i) for i in range(4))
    files.append(deep)
    steps.append(w(deep, "deep\n"))
    # paths longer than 255 bytes made of components that are not (NAME_MAX limits a component, not a path)
    for tag in ("q", "r"):
        longp = "/".join(nm(100, "%s%d" % (tag, i)) for i in range(3)) + "/leaf"
        files.append(longp)
        steps.append(w(longp, "long %s\n" % tag))
    longp = "/".join(nm(100, "q%d" % i) for i in range(3)) + "/leaf"
    steps.append({"ev": "add", "paths": ["."]})
    steps.append({"ev": "lsfiles"})
    steps.append({"ev": "commit", "msg": "lengths"})
    steps.append({"ev": "status"})
    steps.append({"ev": "catfile", "flag": "p", "idref": "tree:0"})
    steps.append({"ev": "catfile", "flag": "p", "idref": "tree:1"})
    steps.append({"ev": "catfile", "flag": "p", "idref": "tree:3"})
    for p in (nm(25), nm(57), nm(255), nm(26, "D") + "/" + nm(25, "f")):
        steps.append(w(p, "changed\n"))
    steps.append({"ev": "add", "paths": [esc(nm(25)), esc(nm(57)), esc(nm(255)), esc(nm(26, "D"))]})
    steps.append({"ev": "commit", "msg": "second"})
    steps.append({"ev": "reset", "mode": "mixed", "arg": esc("HEAD@{1}")})
    steps.append({"ev": "lsfiles"})
    steps.append({"ev": "status"})
    steps.append({"ev": "restore", "paths": [esc(nm(25)), esc(nm(26, "D"))]})
    steps.append({"ev": "reset", "mode": "hard", "arg": esc("HEAD@{1}")})
    steps.append({"ev": "status"})
    steps.append({"ev": "rm", "paths": [esc(nm(24)), esc(nm(25)), esc(nm(26)), esc(nm(27, "D")), esc(longp)]})
    steps.append({"ev": "restores", "paths": [esc(nm(25)), esc(nm(27, "D"))]})
    steps.append({"ev": "commit", "msg": "third"})
    steps.append({"ev": "reset", "mode": "hard", "arg": esc("HEAD@{3}")})
    steps.append({"ev": "lsfiles"})
    steps.append({"ev": "status"})
    save("name_lengths", ["C05", "C06", "C02", "C04", "C08", "C09", "C13", "C03", "C07", "C01", "C18"], steps)


def big_index():
    """about 330 short paths: the index file passes 4096 and 8192 bytes, the root tree passes 4096 bytes"""
    steps = head()
    paths = []
    for i in range(110):
        for d in ("", "src/", "src/pkg/"):
            p = "%sf%03d.go" % (d, i)
            paths.append(p)
            steps.append(w(p, "%s\n" % p))
    steps.append({"ev": "add", "paths": ["."]})
    steps.append({"ev": "commit", "msg": "big"})
    steps.append({"ev": "lsfiles"})
    steps.append(w("src/f050.go", "edit\n"))
    steps.append({"ev": "add", "paths": ["src/f050.go"]})
    steps.append({"ev": "rm", "paths": ["f109.go", "src/pkg/f000.go"]})
    steps.append({"ev": "status"})
    steps.append({"ev": "restores", "paths": ["src"]})
    steps.append({"ev": "restore", "paths": ["src/pkg"]})
    steps.append({"ev": "commit", "msg": "after"})
    steps.append({"ev": "reset", "mode": "hard", "arg": esc("HEAD@{1}")})
    steps.append({"ev": "lsfiles"})
    steps.append({"ev": "status"})
    save("big_index", ["C06", "C05", "C04", "C09", "C03"], steps)


def long_lines():
    steps = head()
    steps.append(w("a", "0"))
    steps.append({"ev": "add", "paths": ["a"]})
    steps.append({"ev": "commit", "msg": "first"})
    n = 0
    for L in (4094, 4095, 4096, 4097, 4500, 8191, 8192, 8193):
        n += 1
        steps.append(w("a", "v%d" % n))
        steps.append({"ev": "add", "paths": ["a"]})
        body = ("word " * (L // 5 + 1))[:L - 1] + "."
        steps.append({"ev": "commit", "msg": esc("subject %d\n\n%s\ntrailer: %d" % (L, body, L))})
        steps.append({"ev": "log", "n": 2})
    # a long first line (it is also what the reflog records)
    steps.append(w("a", "subj"))
    steps.append({"ev": "add", "paths": ["a"]})
    steps.append({"ev": "commit", "msg": esc("s" * 4096 + "\nsecond line")})
    steps.append({"ev": "log", "n": 1})
    steps.append({"ev": "reflog"})
    steps.append({"ev": "reset", "mode": "soft", "arg": esc("HEAD@{2}")})
    steps.append({"ev": "log", "n": 0})
    save("long_lines", ["C12", "C02", "C11", "C14", "C01", "C08"], steps)


def long_values():
    steps = [{"ev": "init"}]
    for i, L in enumerate((4085, 4090, 4096, 4100, 8192)):
        v = ("ab cd " * (L // 6 + 1))[:L - 1] + "z"
        steps.append({"ev": "config", "key": "notes.k%d" % i, "value": esc(v)})
        steps.append({"ev": "config", "key": "core.editor", "value": "vi%d" % i})
    name = ("Long Name " * 500)[:4200].strip()
    steps.append({"ev": "config", "key": "user.name", "value": esc(name)})
    steps.append({"ev": "config", "key": "user.email", "value": "t@example.com"})
    steps.append({"ev": "config", "global": True, "key": "user.name", "value": esc("G " + name[:4094])})
    steps.append({"ev": "config", "global": True, "key": "other.x", "value": "1"})
    steps.append(w("a", "0"))
    steps.append({"ev": "add", "paths": ["a"]})
    steps.append({"ev": "commit", "msg": esc("with a long name")})
    steps.append({"ev": "log", "n": 1})
    steps.append({"ev": "config", "key": "core.y", "value": "2"})
    steps.append(w("a", "1"))
    steps.append({"ev": "add", "paths": ["a"]})
    steps.append({"ev": "commit", "msg": "again"})
    steps.append({"ev": "log", "n": 2})
    steps.append({"ev": "reflog"})
    save("long_values", ["C20", "C12", "C02", "C11"], steps)


def many_branches():
    """more branches and more reflog records than a driver run makes; names that share prefixes with 'refs/heads/'"""
    steps = head()
    steps.append(w("a", "0"))
    steps.append({"ev": "add", "paths": ["a"]})
    steps.append({"ev": "commit", "msg": "first"})
    names = ["dev", "feature", "side", "release", "refs", "heads", "r", "e", "f", "s", "h", "a", "d", "ref", "head",
             "main2", "amain", "mai", "HEAD", "x" * 100, "y" * 255]
    for i, b in enumerate(names):
        steps.append({"ev": "branch" if i % 2 == 0 else "switchc", "name": esc(b)})
        if i % 3 == 0:
            steps.append(w("a", "b%d" % i))
            steps.append({"ev": "add", "paths": ["a"]})
            steps.append({"ev": "commit", "msg": esc("on %d" % i)})
            steps.append({"ev": "log", "n": 3})
    steps.append({"ev": "branchlist"})
    for b in ("dev", "feature", "side", "a", "heads"):
        steps.append({"ev": "switch", "name": b})
        steps.append({"ev": "log", "n": 2})
        steps.append({"ev": "revparse", "names": ["HEAD", b]})
        steps.append({"ev": "status"})
    steps.append({"ev": "branchd", "name": "heads"})       # current: refused
    steps.append({"ev": "branchr", "name": "trunk"})
    steps.append({"ev": "switch", "name": "main"})
    steps.append({"ev": "branchd", "name": "trunk"})
    steps.append({"ev": "branchd", "name": "r"})
    steps.append({"ev": "branchlist"})
    steps.append({"ev": "reflog"})
    steps.append({"ev": "reset", "mode": "hard", "arg": esc("HEAD@{17}")})
    steps.append({"ev": "reflog"})
    save("many_branches", ["C10", "C11", "C14", "C18", "C08", "C03"], steps)


def punct_names():
    """every printable ASCII punctuation character inside a file name and a directory name, and fmt-verb look-alikes"""
    steps = head()
    names = []
    for ch in "!\"#$%&'()*+,-.:;<=>?@[\\]^_`{|}~ ":
        names.append("p%sq" % ch)
        names.append("d%se/f" % ch)
    names += ["%s", "%d%n", "100%", "a%20b", "%!s(MISSING)", "%%", "x%", "%v/%v", "tab\there" if False else "sp  ace"]
    for i, p in enumerate(names):
        steps.append(w(p, "c%d\n" % i))
    steps.append({"ev": "add", "paths": ["."]})
    steps.append({"ev": "commit", "msg": "punct"})
    steps.append({"ev": "status"})
    steps.append({"ev": "commit", "msg": "nothing"})
    steps.append({"ev": "catfile", "flag": "p", "idref": "tree:0"})
    steps.append({"ev": "lsfiles"})
    some = ["p%q", "d%e/f", "%s", "p\\q", "p*q", "p?q", "p[q", "p|q", "d$e/f", "100%"]
    for p in some:
        steps.append(w(p, "changed " + p + "\n"))
    steps.append({"ev": "status"})
    steps.append({"ev": "add", "paths": [esc(x) for x in ["p%q", "d%e", "%s", "p\\q", "p*q"]]})
    steps.append({"ev": "status"})
    steps.append({"ev": "restore", "paths": [esc(x) for x in ["p?q", "p[q", "p|q", "d$e"]]})
    steps.append({"ev": "commit", "msg": "edit"})
    steps.append({"ev": "rm", "paths": [esc(x) for x in ["p%q", "d%e", "100%"]]})
    steps.append({"ev": "restores", "paths": [esc(x) for x in ["p%q", "d%e"]]})
    steps.append({"ev": "status"})
    steps.append({"ev": "reset", "mode": "hard", "arg": esc("HEAD@{1}")})
    steps.append({"ev": "lsfiles"})
    steps.append({"ev": "status"})
    save("punct_names", ["C05", "C06", "C07", "C04", "C09", "C13", "C02", "C08", "C03", "C18"], steps)


def crlf_ignore():
    steps = head()
    for p in ("build/app", "build/obj/main.o", "debug.log", "src/run.log", "src/main.go", "keep.txt", "sub/build/x", "a.log.txt"):
        steps.append(w(p, p + "\n"))
    for n, data in enumerate(("build/\r\n*.log\r\n", "build/\n*.log", "\r\n\r\nbuild/\r\n\r\n*.log", "*.log\r\nbuild/")):
        steps.append({"ev": "write", "p": ".goitignore", "data": data, "old": False})
        steps.append({"ev": "status"})
        steps.append({"ev": "add", "paths": ["."] if n % 2 == 0 else ["build", "debug.log", "src", "keep.txt"]})
        steps.append({"ev": "lsfiles"})
        steps.append({"ev": "status"})
        steps.append({"ev": "commit", "msg": "c%d" % n})
        steps.append(w("keep.txt", "k%d\n" % n))
        steps.append(w("debug.log", "l%d\n" % n))
    steps.append({"ev": "reset", "mode": "hard", "arg": esc("HEAD@{2}")})
    steps.append({"ev": "status"})
    save("crlf_ignore", ["C17", "C13", "C04", "C02"], steps)


def punct_identity():
    """every printable ASCII punctuation character at the start, inside and at the end of a word of the user name
    (no '<', which a name cannot hold; no leading '-'), written locally or globally, then used by a commit"""
    steps = [{"ev": "init"}, {"ev": "config", "key": "user.email", "value": "bot@example.com"}]
    steps.append(w("a", "0"))
    for i, ch in enumerate("!\"#$%&'()*+,-./:;=>?@[\\]^_`{|}~"):
        name = "Release%sBot %s2 nightly%s" % (ch, ch, ch)
        ev = {"ev": "config", "key": "user.name", "value": esc(name)}
        if i % 3 == 2:
            ev["global"] = True
        steps.append(ev)
        if i % 3 == 2:
            # the local name still wins: set it too, a little differently
            steps.append({"ev": "config", "key": "user.name", "value": esc("L" + name)})
        steps.append(w("a", "v%d" % i))
        steps.append({"ev": "add", "paths": ["a"]})
        steps.append({"ev": "commit", "msg": esc("by %s" % ch)})
        if i % 5 == 0:
            steps.append({"ev": "log", "n": 1})
    steps.append({"ev": "config", "key": "other.key", "value": esc("semi; colon # hash = equals")})
    steps.append({"ev": "config", "key": "user.email", "value": "bot+x@example.com"})
    steps.append(w("a", "last"))
    steps.append({"ev": "add", "paths": ["a"]})
    steps.append({"ev": "commit", "msg": "last"})
    steps.append({"ev": "log", "n": 3})
    steps.append({"ev": "reflog"})
    save("punct_identity", ["C02", "C12", "C20", "C11"], steps)


def content_sizes():
    """content lengths around the buffer sizes a reader or writer may use (bufio 4096, 32 KiB copy buffers, 64 KiB, 1 MiB),
    compressible and incompressible, stored, read back by id, restored and reset"""
    steps = head()
    sizes = [0, 1, 2, 31, 32, 33, 4095, 4096, 4097, 8191, 8192, 8193, 32767, 32768, 32769, 65535, 65536, 65537, 131072, 1048575, 1048576, 1048577]
    names = []
    for i, n in enumerate(sizes):
        p = "s%07d.%s" % (n, "txt" if i % 2 == 0 else "bin")
        names.append(p)
        steps.append({"ev": "write", "p": p, "gen": {"class": "text" if i % 2 == 0 else "big_random", "size": n, "seed": 100 + i}, "old": False})
    steps.append({"ev": "add", "paths": ["."]})
    steps.append({"ev": "commit", "msg": "sizes"})
    for k in range(0, len(sizes), 3):
        steps.append({"ev": "catfile", "flag": "p", "idref": "blob:%d" % k})
    steps.append({"ev": "hashobject", "paths": names[3:9]})
    for p in names[::2]:
        steps.append(w(p, "short\n"))
    steps.append({"ev": "status"})
    steps.append({"ev": "restore", "paths": names[::4]})
    steps.append({"ev": "add", "paths": names[2::4]})
    steps.append({"ev": "commit", "msg": "shorter"})
    steps.append({"ev": "reset", "mode": "hard", "arg": esc("HEAD@{1}")})
    steps.append({"ev": "status"})
    steps.append({"ev": "lsfiles"})
    save("content_sizes", ["C01", "C08", "C09", "C13", "C03"], steps, tz=0)


def reflog_100():
    """more than a hundred reflog records (cheaply, by switching between two branches): positions with three digits"""
    steps = head()
    steps.append(w("a", "0"))
    steps.append({"ev": "add", "paths": ["a"]})
    steps.append({"ev": "commit", "msg": "first"})
    steps.append({"ev": "switchc", "name": "other"})
    steps.append(w("a", "1"))
    steps.append({"ev": "add", "paths": ["a"]})
    steps.append({"ev": "commit", "msg": "second"})
    for i in range(52):
        steps.append({"ev": "switch", "name": "main"})
        steps.append({"ev": "switch", "name": "other"})
    steps.append({"ev": "reflog"})
    for arg, mode in (("HEAD@{100}", "soft"), ("HEAD@{99}", "soft"), ("HEAD@{107}", "soft"), ("HEAD@{120}", "soft"), ("HEAD@{101}", "mixed"),
                      ("HEAD@{1000}", "soft"), ("HEAD@{010}", "soft"), ("HEAD@{111}", "hard")):
        steps.append({"ev": "reset", "mode": mode, "arg": esc(arg)})
    steps.append({"ev": "reflog"})
    steps.append({"ev": "log", "n": 3})
    save("reflog_100", ["C08", "C11", "C18"], steps)


def empty_states():
    """the empty staging area, the empty tree and the commit with the empty snapshot, reached the way a user reaches them"""
    steps = head()
    steps.append({"ev": "writetree"})                      # empty index right after init
    steps.append(w("a.txt", "a\n"))
    steps.append(w("dir/b.txt", "b\n"))
    steps.append({"ev": "add", "paths": ["."]})
    steps.append({"ev": "writetree"})
    steps.append({"ev": "commit", "msg": "one"})
    steps.append({"ev": "rm", "paths": ["a.txt", "dir/b.txt"]})          # staging area empty, HEAD has two paths
    steps.append({"ev": "lsfiles"})
    steps.append({"ev": "status"})
    steps.append({"ev": "writetree"})
    steps.append({"ev": "catfile", "flag": "p", "idref": "tree:0"})
    steps.append({"ev": "restores", "paths": ["a.txt"]})                  # re-created from HEAD although the index was empty
    steps.append({"ev": "lsfiles"})
    steps.append({"ev": "restore", "paths": ["a.txt"]})
    steps.append({"ev": "rm", "paths": ["a.txt"]})
    steps.append({"ev": "restores", "paths": ["dir"]})
    steps.append({"ev": "restores", "paths": ["no-such-file"]})           # refused
    steps.append({"ev": "lsfiles"})
    steps.append({"ev": "rm", "paths": ["dir"]})
    steps.append({"ev": "commit", "msg": "empty"})                        # the commit with the empty snapshot
    steps.append({"ev": "status"})
    steps.append({"ev": "log", "n": 3})
    steps.append({"ev": "catfile", "flag": "p", "idref": "head"})
    steps.append({"ev": "commit", "msg": "nothing"})                      # refused
    steps.append(w("c.txt", "c\n"))
    steps.append({"ev": "add", "paths": ["c.txt"]})
    steps.append({"ev": "commit", "msg": "three"})
    steps.append({"ev": "reset", "mode": "mixed", "arg": esc("HEAD@{1}")})   # to the empty snapshot with a non-empty staging area
    steps.append({"ev": "lsfiles"})
    steps.append({"ev": "status"})
    steps.append({"ev": "reset", "mode": "hard", "arg": esc("HEAD@{1}")})    # back to "three"
    steps.append({"ev": "lsfiles"})
    steps.append({"ev": "reset", "mode": "mixed", "arg": esc("HEAD@{4}")})   # to "one"
    steps.append({"ev": "lsfiles"})
    steps.append({"ev": "status"})
    save("empty_states", ["C01", "C02", "C03", "C05", "C07", "C08", "C09", "C13"], steps)


def revert_content():
    """contents whose blob is already in the store: an edit taken back to an earlier version, two files exchanging their
    contents, a copy of another file - the staged id must follow the file's current bytes every time"""
    steps = head()
    steps.append(w("notes.txt", "version one\n"))
    steps.append(w("x", "1\n"))
    steps.append(w("y", "2\n"))
    steps.append({"ev": "add", "paths": ["."]})
    steps.append({"ev": "commit", "msg": "one"})
    steps.append(w("notes.txt", "version two\n"))
    steps.append({"ev": "add", "paths": ["notes.txt"]})
    steps.append({"ev": "lsfiles"})
    steps.append(w("notes.txt", "version one\n"))           # taken back
    steps.append({"ev": "add", "paths": ["notes.txt"]})
    steps.append({"ev": "lsfiles"})
    steps.append({"ev": "status"})
    steps.append(w("x", "2\n"))                               # x and y exchange their contents
    steps.append(w("y", "1\n"))
    steps.append({"ev": "add", "paths": ["x", "y"]})
    steps.append({"ev": "lsfiles"})
    steps.append({"ev": "commit", "msg": "swapped"})
    steps.append({"ev": "status"})
    steps.append(w("copy", "version one\n"))                  # a copy of another file
    steps.append(w("notes.txt", "version two\n"))
    steps.append({"ev": "add", "paths": ["."]})
    steps.append({"ev": "commit", "msg": "three"})
    steps.append(w("notes.txt", "version one\n"))
    steps.append({"ev": "status"})
    steps.append({"ev": "add", "paths": ["notes.txt"]})
    steps.append({"ev": "commit", "msg": esc("back again")})        # same tree as "swapped" plus copy
    steps.append({"ev": "log", "n": 4})
    steps.append({"ev": "reset", "mode": "hard", "arg": esc("HEAD@{1}")})
    steps.append({"ev": "status"})
    save("revert_content", ["C02", "C04", "C07", "C13", "C14", "C01"], steps)


def tz_pairs():
    """one history with commits made under offsets of equal magnitude and opposite sign, then read back in one run of log"""
    steps = head()
    n = 0
    for off in (300, -300, 330, -330, 0, 45, -45, 765, -720, 840, -15, 15):
        n += 1
        steps.append({"ev": "settz", "off": off})
        steps.append(w("a", "v%d" % n))
        steps.append({"ev": "add", "paths": ["a"]})
        steps.append({"ev": "commit", "msg": esc("at %d" % off)})
        steps.append({"ev": "log", "n": 3})
    steps.append({"ev": "settz", "off": 0})
    steps.append({"ev": "log", "n": 12})
    steps.append({"ev": "settz", "off": -300})
    steps.append({"ev": "log", "n": 12})
    save("tz_pairs", ["C12", "C14"], steps)


def raw(sub, *args):
    return {"ev": "raw", "argv": [esc(a) for a in (sub,) + args], "ru": True, "sub": sub, "dom": False}


def cli_combos():
    """branch commands with surplus and combined arguments: whatever is refused must leave HEAD and every branch alone"""
    steps = head()
    steps.append(w("a", "1"))
    steps.append({"ev": "add", "paths": ["a"]})
    steps.append({"ev": "commit", "msg": "one"})
    steps.append({"ev": "branch", "name": "other"})
    steps.append(w("a", "2"))
    steps.append({"ev": "add", "paths": ["a"]})
    steps.append({"ev": "commit", "msg": "two"})          # main is one commit ahead of other
    for args in (("switch", "-c", "main", "other"), ("switch", "-c", "feature", "other"), ("switch", "other", "main"),
                 ("switch", "-c", "other"), ("switch", "--create", "x", "--create", "y", "other"),
                 ("branch", "-d", "main"), ("branch", "-d", "other", "main"), ("branch", "x", "-d", "other"), ("branch", "-r", "other"),
                 ("branch", "-r", "y", "-d", "other"), ("branch", "other"), ("branch", "a", "b"),
                 ("update-ref", "refs/heads/other"), ("update-ref", "refs/heads/nope", "@HEADID@"), ("update-ref", "other", "@HEADID@"),
                 ("rev-parse", "nope"), ("switch", "nope"), ("switch",)):
        steps.append(raw(*args))
        steps.append({"ev": "branchlist"})
    steps.append({"ev": "revparse", "names": ["HEAD", "main", "other"]})
    steps.append({"ev": "reflog"})
    save("cli_combos", ["C10", "C18", "C11", "C03"], steps)


def fs_corpus2():
    """the directory forms of the modifying commands, for the crash and fault enumeration"""
    steps = head()
    for p_, d in (("top.txt", "t\n"), ("dir/one.txt", "1\n"), ("dir/two.txt", "2\n"), ("dir/sub/three.txt", "3\n")):
        steps.append(w(p_, d))
    steps.append({"ev": "add", "paths": ["."]})
    steps.append({"ev": "commit", "msg": "base"})
    steps.append({"ev": "rm", "paths": ["dir"]})                       # a tracked directory: several entries, one index write
    steps.append({"ev": "restores", "paths": ["dir"]})
    steps.append({"ev": "restore", "paths": ["dir"]})                  # the directory is gone from the working tree
    steps.append(w("dir/one.txt", "1b\n"))
    steps.append(w("dir/new.txt", "n\n"))
    steps.append({"ev": "add", "paths": ["dir"]})
    steps.append({"ev": "rm", "paths": ["dir/sub", "top.txt"]})
    steps.append({"ev": "commit", "msg": "second"})
    steps.append({"ev": "config", "global": True, "key": "user.email", "value": "g@example.org"})
    steps.append({"ev": "remove", "p": "dir/two.txt"})
    steps.append({"ev": "add", "paths": ["dir/two.txt", "dir/one.txt"]})   # a deleted tracked path and an unchanged one
    steps.append({"ev": "reset", "mode": "hard", "arg": esc("HEAD@{1}")})
    steps.append({"ev": "branch", "name": "other"})
    steps.append(w("top.txt", "t2\n"))
    steps.append({"ev": "add", "paths": ["top.txt"]})
    steps.append({"ev": "commit", "msg": "third"})                       # main is ahead of other
    steps.append({"ev": "switch", "name": "other"})                      # between branches at different commits
    steps.append({"ev": "switch", "name": "main"})
    steps.append({"ev": "branchr", "name": "trunk"})
    steps.append({"ev": "branchd", "name": "other"})
    save("fs_corpus2", ["C15", "C16"], steps)


def restore_staged_dirs():
    """restore --staged of a directory whose HEAD entries come before, inside and after a sub-directory"""
    steps = head()
    for p_ in ("docs/a-first.txt", "docs/intro.txt", "docs/pics/a.png", "docs/pics/sub/deep.png", "docs/z-last.txt", "docs.md", "docs-old/x", "main.go"):
        steps.append(w(p_, p_ + "\n"))
    steps.append({"ev": "add", "paths": ["."]})
    steps.append({"ev": "commit", "msg": "base"})
    steps.append({"ev": "rm", "paths": ["docs/intro.txt"]})
    steps.append({"ev": "restores", "paths": ["docs"]})
    steps.append({"ev": "lsfiles"})
    steps.append({"ev": "rm", "paths": ["docs/a-first.txt", "docs/z-last.txt", "docs/pics/a.png"]})
    steps.append({"ev": "restores", "paths": ["docs"]})
    steps.append({"ev": "lsfiles"})
    steps.append({"ev": "rm", "paths": ["docs"]})                      # `docs` next to docs.md and docs-old/
    steps.append({"ev": "lsfiles"})
    steps.append({"ev": "restores", "paths": ["docs/pics"]})
    steps.append({"ev": "restores", "paths": ["docs"]})
    steps.append({"ev": "lsfiles"})
    steps.append({"ev": "restore", "paths": ["docs"]})
    steps.append({"ev": "status"})
    steps.append({"ev": "rm", "paths": ["docs-old", "docs.md"]})
    steps.append({"ev": "restores", "paths": ["docs-old", "docs.md", "docs"]})
    steps.append({"ev": "lsfiles"})
    save("restore_staged_dirs", ["C09", "C04", "C06"], steps)


def tracked_then_ignored():
    """a file is tracked first and matched by an ignore rule later; argument lists that mix ignored, new and unknown paths"""
    steps = head()
    for p_ in ("main.txt", "trace.log", "a.txt"):
        steps.append(w(p_, p_ + " v1\n"))
    steps.append({"ev": "add", "paths": ["."]})
    steps.append({"ev": "commit", "msg": "base"})
    steps.append({"ev": "write", "p": ".goitignore", "data": "*.log\n", "old": False})
    steps.append({"ev": "add", "paths": [".goitignore"]})
    steps.append({"ev": "commit", "msg": esc("ignore logs")})
    steps.append(w("trace.log", "v2\n"))
    steps.append(w("other.log", "o\n"))
    steps.append({"ev": "status"})
    steps.append({"ev": "add", "paths": ["."]})
    steps.append({"ev": "add", "paths": ["other.log"]})
    steps.append({"ev": "add", "paths": ["trace.log"]})                 # tracked and ignored: must not be re-staged
    steps.append({"ev": "lsfiles"})
    steps.append({"ev": "status"})
    steps.append(w("new.txt", "n\n"))
    steps.append({"ev": "add", "paths": ["build.log", "new.txt", "nosuch.txt"]})   # refused as a whole: nosuch.txt is unknown
    steps.append({"ev": "lsfiles"})
    steps.append({"ev": "add", "paths": ["nosuch.txt", "new.txt"]})
    steps.append({"ev": "add", "paths": ["new.txt", "build.log"]})
    steps.append({"ev": "lsfiles"})
    steps.append({"ev": "rm", "paths": ["a.txt", "nosuch.txt"]})                    # refused as a whole
    steps.append({"ev": "rm", "paths": ["a.txt", "a.txt"]})
    steps.append({"ev": "lsfiles"})
    steps.append({"ev": "status"})
    save("tracked_then_ignored", ["C17", "C18", "C04", "C06", "C13", "C02"], steps)


def dup_args():
    """the same path named twice, and a directory followed by one of its members, for add / rm / restore --staged"""
    steps = head()
    for p_ in ("a.txt", "b.txt", "c.txt", "d.txt", "d/x", "d/y", "e.txt"):
        if p_ == "d.txt":
            continue
        steps.append(w(p_, p_ + "\n"))
    steps.append({"ev": "add", "paths": ["."]})
    steps.append({"ev": "commit", "msg": "base"})
    steps.append({"ev": "rm", "paths": ["b.txt", "b.txt"]})
    steps.append({"ev": "lsfiles"})
    steps.append({"ev": "rm", "paths": ["d", "d/x"]})
    steps.append({"ev": "lsfiles"})
    steps.append({"ev": "restores", "paths": ["b.txt", "d"]})
    steps.append({"ev": "restore", "paths": ["b.txt", "d"]})
    steps.append({"ev": "remove", "p": "c.txt"})
    steps.append({"ev": "add", "paths": ["c.txt", "c.txt"]})            # a deleted tracked file named twice
    steps.append({"ev": "lsfiles"})
    steps.append(w("new1", "n1"))
    steps.append({"ev": "add", "paths": ["new1"]})
    steps.append({"ev": "restores", "paths": ["new1", "new1"]})         # a newly added file unstaged twice
    steps.append({"ev": "lsfiles"})
    steps.append({"ev": "status"})
    save("dup_args", ["C06", "C04", "C09"], steps)


def identity_same():
    """the same value in both scopes first, a different one later; a global write from a repository that names its user itself"""
    steps = [{"ev": "init"}]
    steps.append({"ev": "config", "global": True, "key": "user.name", "value": esc("Grace Hopper")})
    steps.append({"ev": "config", "global": True, "key": "user.email", "value": "grace@example.com"})
    steps.append({"ev": "config", "key": "user.name", "value": esc("Grace Hopper")})       # pinned locally with the value in effect
    steps.append({"ev": "config", "key": "user.email", "value": "grace@example.com"})
    steps.append({"ev": "config", "global": True, "key": "user.name", "value": esc("Build Robot")})
    steps.append({"ev": "config", "global": True, "key": "user.email", "value": "robot@ci.example.org"})
    steps.append(w("a", "1"))
    steps.append({"ev": "add", "paths": ["a"]})
    steps.append({"ev": "commit", "msg": "one"})
    steps.append({"ev": "log", "n": 1})
    steps.append({"ev": "config", "global": True, "key": "core.editor", "value": "vi"})      # from a repository with a local identity
    steps.append({"ev": "config", "key": "user.name", "value": esc("Grace Hopper")})         # already set to this value
    steps.append({"ev": "config", "global": True, "key": "core.editor", "value": "vi"})
    steps.append(w("a", "2"))
    steps.append({"ev": "add", "paths": ["a"]})
    steps.append({"ev": "commit", "msg": "two"})
    steps.append({"ev": "log", "n": 2})
    save("identity_same", ["C20", "C02", "C12"], steps)


def staged_rename():
    """a rename staged by hand (same bytes under a new name at the same sorted position), then reset"""
    steps = head()
    steps.append(w("notes.txt", "notes\n"))
    steps.append(w("zeta.txt", "zeta\n"))
    steps.append({"ev": "add", "paths": ["."]})
    steps.append({"ev": "commit", "msg": "base"})
    steps.append({"ev": "remove", "p": "notes.txt"})
    steps.append(w("plans.txt", "notes\n"))
    steps.append({"ev": "add", "paths": ["plans.txt", "notes.txt"]})
    steps.append({"ev": "lsfiles"})
    steps.append({"ev": "status"})
    steps.append({"ev": "reset", "mode": "mixed", "arg": esc("HEAD@{0}")})
    steps.append({"ev": "lsfiles"})
    steps.append({"ev": "add", "paths": ["plans.txt", "notes.txt"]})
    steps.append({"ev": "reset", "mode": "hard", "arg": esc("HEAD@{0}")})
    steps.append({"ev": "lsfiles"})
    steps.append({"ev": "status"})
    save("staged_rename", ["C08", "C05", "C04"], steps)


def twin_dirs():
    """directories with the same blobs under the same and under different names, equal contents inside and outside a directory,
    a twin directory followed by a regular file; the untracked file that makes two counts equal"""
    steps = head()
    for p_, d in (("pkg/alpha/LICENSE", "MIT\n"), ("pkg/beta/COPYING", "MIT\n"), ("pkg/a/marker.txt", "m\n"), ("pkg/b/marker.txt", "m\n"),
                  ("pkg/setup.txt", "setup\n"), ("LICENSE", "MIT\n"), ("lib/LICENSE", "MIT\n"), ("lib/lib.go", "package lib\n"),
                  ("x/f", "same\n"), ("y/sub/f", "same\n"), ("docs/a.txt", "a\n"), ("docs/b.txt", "b\n"), ("main.go", "package main\n"),
                  # the second of two identical directories directly followed by a regular file (in pkg/ a directory follows)
                  ("q/one/m", "twin\n"), ("q/two/m", "twin\n"), ("q/zz.txt", "after the twins\n")):
        steps.append(w(p_, d))
    steps.append({"ev": "add", "paths": ["."]})
    steps.append({"ev": "writetree"})
    steps.append({"ev": "commit", "msg": "twins"})
    steps.append({"ev": "status"})
    steps.append({"ev": "commit", "msg": "nothing"})
    steps.append({"ev": "catfile", "flag": "p", "idref": "tree:0"})
    steps.append({"ev": "catfile", "flag": "p", "idref": "tree:2"})
    steps.append({"ev": "catfile", "flag": "p", "idref": "tree:4"})
    steps.append({"ev": "rm", "paths": ["lib"]})                       # LICENSE outside lib has the same bytes
    steps.append({"ev": "lsfiles"})
    steps.append({"ev": "restores", "paths": ["lib"]})
    steps.append({"ev": "restore", "paths": ["lib"]})
    steps.append({"ev": "remove", "p": "docs/b.txt"})
    steps.append(w("docs/notes.txt", "untracked\n"))                  # one tracked file missing, one untracked file present
    steps.append({"ev": "rm", "paths": ["docs"]})
    steps.append({"ev": "status"})
    steps.append({"ev": "commit", "msg": "second"})
    steps.append({"ev": "reset", "mode": "mixed", "arg": esc("HEAD@{1}")})
    steps.append({"ev": "lsfiles"})
    steps.append({"ev": "status"})
    steps.append({"ev": "rm", "paths": ["pkg/b"]})
    steps.append({"ev": "restores", "paths": ["pkg/b"]})
    steps.append({"ev": "lsfiles"})
    steps.append({"ev": "reset", "mode": "hard", "arg": esc("HEAD@{2}")})
    steps.append({"ev": "lsfiles"})
    steps.append({"ev": "status"})
    save("twin_dirs", ["C03", "C04", "C05", "C06", "C07", "C02", "C09", "C01"], steps)


def ignored_dir_becomes_file():
    steps = head()
    steps.append(w("build/out.txt", "o\n"))
    steps.append(w("keep.txt", "k\n"))
    steps.append({"ev": "add", "paths": ["build", "keep.txt"]})
    steps.append({"ev": "commit", "msg": "one"})
    steps.append({"ev": "write", "p": ".goitignore", "data": "build/\n", "old": False})
    steps.append({"ev": "add", "paths": [".goitignore"]})
    steps.append({"ev": "commit", "msg": "two"})
    steps.append({"ev": "status"})
    steps.append({"ev": "rmdir", "p": "build"})
    steps.append(w("build", "three\n"))                                # the ignored directory is now a regular file of that name
    steps.append({"ev": "status"})
    steps.append({"ev": "add", "paths": ["."]})
    steps.append({"ev": "lsfiles"})
    steps.append({"ev": "status"})
    save("ignored_dir_becomes_file", ["C13", "C17"], steps)


def deep_path():
    """a file forty directories deep: every lookup by path walks that far"""
    steps = head()
    deep = "/".join("d%d" % i for i in range(40)) + "/leaf.txt"
    steps.append(w(deep, "leaf\n"))
    steps.append(w("top.txt", "top\n"))
    steps.append({"ev": "add", "paths": ["."]})
    steps.append({"ev": "commit", "msg": "deep"})
    steps.append({"ev": "status"})
    steps.append({"ev": "commit", "msg": "nothing"})
    steps.append(w(deep, "leaf2\n"))
    steps.append({"ev": "status"})
    steps.append({"ev": "add", "paths": ["d0"]})
    steps.append({"ev": "restores", "paths": [esc(deep)]})
    steps.append({"ev": "restore", "paths": ["d0/d1"]})
    steps.append({"ev": "rm", "paths": ["d0"]})
    steps.append({"ev": "commit", "msg": "gone"})
    steps.append({"ev": "reset", "mode": "hard", "arg": esc("HEAD@{1}")})
    steps.append({"ev": "status"})
    save("deep_path", ["C18", "C07", "C09", "C05", "C13"], steps)


def spelled_args():
    """clean paths under other spellings: ./f, d/./g, d//g"""
    steps = head()
    steps.append(w("f", "f1\n"))
    steps.append(w("sub/g", "g1\n"))
    steps.append(w("sub/deep/h", "h1\n"))
    steps.append({"ev": "add", "paths": ["."]})
    steps.append({"ev": "commit", "msg": "base"})
    for spelled in (["./f"], ["sub/./g"], ["sub//g"], ["./sub/deep/h", "./f"], ["sub/deep/./h"]):
        for p_ in ("f", "sub/g", "sub/deep/h"):
            steps.append(w(p_, "edited " + spelled[0] + "\n"))
        steps.append({"ev": "restore", "paths": [esc(x) for x in spelled]})
        steps.append({"ev": "status"})
        steps.append({"ev": "restore", "paths": ["f", "sub"]})
    save("spelled_args", ["C09"], steps)


def dotgoit_names():
    """names that contain the name of the metadata directory without being it: only the root `.goit` is special"""
    steps = head()
    for p_ in ("assets.goit/data.txt", "sub/.goit/keep", "x.goit", ".goitx", "a.goit/b.goit/c", "my.goit.d/e", "top.txt"):
        steps.append(w(p_, p_ + " v1\n"))
    steps.append({"ev": "add", "paths": ["."]})
    steps.append({"ev": "lsfiles"})
    steps.append({"ev": "commit", "msg": "one"})
    steps.append({"ev": "status"})
    steps.append({"ev": "commit", "msg": "nothing"})
    steps.append(w("top.txt", "v2\n"))
    steps.append(w("sub/.goit/keep", "v2\n"))
    steps.append({"ev": "add", "paths": ["top.txt", "sub"]})
    steps.append({"ev": "commit", "msg": "two"})
    steps.append({"ev": "reset", "mode": "mixed", "arg": esc("HEAD@{1}")})
    steps.append({"ev": "lsfiles"})
    steps.append({"ev": "status"})
    steps.append({"ev": "reset", "mode": "hard", "arg": esc("HEAD@{1}")})
    steps.append({"ev": "lsfiles"})
    steps.append({"ev": "rm", "paths": ["assets.goit", "sub/.goit/keep"]})
    steps.append({"ev": "restores", "paths": ["assets.goit", "sub"]})
    steps.append({"ev": "restore", "paths": ["assets.goit", "sub/.goit"]})
    steps.append({"ev": "status"})
    steps.append({"ev": "catfile", "flag": "p", "idref": "tree:0"})
    save("dotgoit_names", ["C05", "C17", "C13", "C08", "C09", "C04", "C07"], steps)


def ignore_nested_args():
    """ignored directories named directly or reached through a parent argument, at the root and nested"""
    steps = head()
    steps.append({"ev": "write", "p": ".goitignore", "data": "build/\nsrc/gen/\n*.o\n", "old": False})
    for p_ in ("src/gen/out.go", "src/lib/lib.go", "src/main.go", "src/build/y.txt", "src/lib/z.o", "build/x", "docs/a", "docs/build/b", "top.o", "top.txt"):
        steps.append(w(p_, p_ + "\n"))
    steps.append({"ev": "status"})
    steps.append({"ev": "add", "paths": ["src/build"]})
    steps.append({"ev": "add", "paths": ["src/gen"]})
    steps.append({"ev": "add", "paths": ["src/gen/out.go", "src/lib/z.o"]})
    steps.append({"ev": "lsfiles"})
    steps.append({"ev": "add", "paths": ["src"]})
    steps.append({"ev": "lsfiles"})
    steps.append({"ev": "add", "paths": ["docs", "build", "top.o"]})
    steps.append({"ev": "lsfiles"})
    steps.append({"ev": "add", "paths": ["."]})
    steps.append({"ev": "lsfiles"})
    steps.append({"ev": "status"})
    steps.append({"ev": "commit", "msg": "one"})
    steps.append(w("src/gen/out.go", "changed\n"))
    steps.append(w("src/main.go", "changed\n"))
    steps.append({"ev": "add", "paths": ["src"]})
    steps.append({"ev": "status"})
    save("ignore_nested_args", ["C17", "C04", "C13", "C02", "C06"], steps)


def spelled_rm():
    """rm of a tracked directory written the way shell completion writes it (docs/), behind ./ and of files under other spellings"""
    steps = head()
    for p_ in ("readme.txt", "docs/a.txt", "docs/b.txt", "src/x.go", "src/sub/y.go", "lib/z"):
        steps.append(w(p_, p_ + "\n"))
    steps.append({"ev": "add", "paths": ["."]})
    steps.append({"ev": "commit", "msg": "base"})
    steps.append(w("docs/untracked.txt", "u\n"))
    steps.append({"ev": "rm", "paths": [esc("docs/")]})
    steps.append({"ev": "lsfiles"})
    steps.append({"ev": "status"})
    steps.append({"ev": "rm", "paths": [esc("./src")]})
    steps.append({"ev": "lsfiles"})
    steps.append({"ev": "rm", "paths": [esc("./lib/z"), esc("./readme.txt")]})
    steps.append({"ev": "lsfiles"})
    steps.append({"ev": "restores", "paths": ["docs", "src", "lib", "readme.txt"]})
    steps.append({"ev": "restore", "paths": [esc("./docs"), esc("src/./sub")]})
    steps.append({"ev": "status"})
    save("spelled_rm", ["C04", "C06", "C09"], steps)


def revparse_orders():
    """rev-parse with HEAD before, between and after branch names, on a branch that is not the first one"""
    steps = head()
    steps.append(w("a", "1"))
    steps.append({"ev": "add", "paths": ["a"]})
    steps.append({"ev": "commit", "msg": "one"})
    steps.append({"ev": "switchc", "name": "topic"})
    steps.append(w("a", "2"))
    steps.append({"ev": "add", "paths": ["a"]})
    steps.append({"ev": "commit", "msg": "two"})
    steps.append({"ev": "branch", "name": "zeta"})
    for names in (["HEAD"], ["main"], ["HEAD", "main"], ["main", "HEAD"], ["topic", "main", "HEAD"], ["main", "HEAD", "topic", "HEAD"], ["zeta", "HEAD", "main"]):
        steps.append({"ev": "revparse", "names": names})
    steps.append({"ev": "switch", "name": "main"})
    for names in (["topic", "HEAD"], ["HEAD", "topic", "zeta"]):
        steps.append({"ev": "revparse", "names": names})
    steps.append({"ev": "branchlist"})
    save("revparse_orders", ["C10"], steps)


def nested_removal():
    """files are removed only inside nested sub-directories, so that the number of paths left beneath a directory equals the
    number of its direct children in the previous snapshot; a commit must still record exactly what is staged"""
    steps = head()
    for p_ in ("README", "docs/api/index.md", "docs/api/errors.md", "src/main.go", "src/util/a.go", "src/util/b.go",
               "src/gen/x.go", "src/gen/y.go", "src/gen/z.go", "t/u/v/one", "t/u/v/two", "t/u/w"):
        steps.append(w(p_, p_ + "\n"))
    steps.append({"ev": "add", "paths": ["."]})
    steps.append({"ev": "commit", "msg": "base"})
    steps.append({"ev": "rm", "paths": ["docs/api/errors.md"]})         # docs: 1 child (api), 1 path left
    steps.append({"ev": "writetree"})
    steps.append({"ev": "commit", "msg": "one"})
    steps.append({"ev": "lsfiles"})
    steps.append({"ev": "status"})
    steps.append({"ev": "rm", "paths": ["src/util/b.go", "src/gen/y.go", "src/gen/z.go"]})   # src: 3 children, 3 paths left
    steps.append(w("README", "changed\n"))
    steps.append({"ev": "add", "paths": ["README"]})
    steps.append({"ev": "commit", "msg": "two"})
    steps.append({"ev": "status"})
    steps.append({"ev": "rm", "paths": ["t/u/v/two"]})                  # t: 1 child, 2 paths left
    steps.append({"ev": "commit", "msg": "three"})
    steps.append({"ev": "rm", "paths": ["t/u/w"]})                      # t: 1 child, 1 path left
    steps.append({"ev": "commit", "msg": "four"})
    steps.append({"ev": "status"})
    steps.append({"ev": "reset", "mode": "hard", "arg": esc("HEAD@{0}")})
    steps.append({"ev": "lsfiles"})
    steps.append({"ev": "status"})
    steps.append({"ev": "catfile", "flag": "p", "idref": "tree:0"})
    steps.append({"ev": "log", "n": 5})
    save("nested_removal", ["C05", "C02", "C07", "C08", "C01"], steps)


def tracked_ignored_ops():
    """files tracked before an ignore rule matched them, taken through rm, restore --staged, commit, the three reset modes and status"""
    steps = head()
    for p_ in ("main.txt", "trace.log", "build/out.txt", "a.txt"):
        steps.append(w(p_, p_ + " v1\n"))
    steps.append({"ev": "add", "paths": ["."]})
    steps.append({"ev": "commit", "msg": "base"})
    steps.append(w("trace.log", "trace two, longer\n"))
    steps.append(w("build/out.txt", "out two\n"))
    steps.append({"ev": "add", "paths": ["."]})
    steps.append({"ev": "commit", "msg": "second"})
    steps.append({"ev": "write", "p": ".goitignore", "data": "*.log\nbuild/\n", "old": False})   # not tracked itself
    steps.append({"ev": "status"})
    steps.append(w("trace.log", "scribble\n"))
    steps.append({"ev": "status"})
    steps.append({"ev": "reset", "mode": "hard", "arg": esc("HEAD@{0}")})   # a local edit of a tracked, ignored file
    steps.append({"ev": "status"})
    steps.append({"ev": "reset", "mode": "hard", "arg": esc("HEAD@{2}")})   # base: other bytes, no local edit
    steps.append({"ev": "status"})
    steps.append({"ev": "reset", "mode": "hard", "arg": esc("HEAD@{2}")})   # second again
    steps.append({"ev": "status"})
    steps.append({"ev": "rm", "paths": ["build/out.txt"]})
    steps.append(w("a.txt", "a2\n"))
    steps.append({"ev": "add", "paths": ["a.txt"]})
    steps.append({"ev": "status"})                                        # a staged deletion of an ignored path is a staged change
    steps.append({"ev": "commit", "msg": "third"})
    steps.append({"ev": "status"})
    steps.append({"ev": "reset", "mode": "soft", "arg": esc("HEAD@{1}")})
    steps.append({"ev": "status"})
    steps.append({"ev": "restores", "paths": ["build/out.txt"]})
    steps.append({"ev": "status"})
    steps.append({"ev": "lsfiles"})
    steps.append({"ev": "reset", "mode": "mixed", "arg": esc("HEAD@{0}")})
    steps.append({"ev": "status"})
    steps.append({"ev": "remove", "p": "a.txt"})                          # a deletion next to a modified tracked, ignored file
    steps.append(w("trace.log", "again\n"))
    steps.append({"ev": "status"})
    steps.append(w("build/out.txt", "out three\n"))
    steps.append({"ev": "remove", "p": "main.txt"})
    steps.append({"ev": "status"})
    steps.append({"ev": "reset", "mode": "hard", "arg": esc("HEAD@{0}")})
    steps.append({"ev": "status"})
    save("tracked_ignored_ops", ["C07", "C08", "C13", "C17"], steps)


def restore_staged_mix():
    """restore --staged of a directory that holds a newly staged file, a staged modification and a staged deletion in every order"""
    steps = head()
    for p_ in ("d/keep.txt", "d/mod.txt", "d/gone.txt", "top.txt", "zz.txt", "e/m1", "e/m2"):
        steps.append(w(p_, p_ + "\n"))
    steps.append({"ev": "add", "paths": ["."]})
    steps.append({"ev": "commit", "msg": "base"})
    steps.append(w("d/a_new.txt", "new\n"))                              # sorts before the modified file
    steps.append(w("d/mod.txt", "modified\n"))
    steps.append({"ev": "add", "paths": ["d"]})
    steps.append({"ev": "restores", "paths": ["d"]})
    steps.append({"ev": "lsfiles"})
    steps.append(w("d/z_new.txt", "new\n"))                              # sorts after it
    steps.append({"ev": "add", "paths": ["d"]})
    steps.append({"ev": "rm", "paths": ["d/gone.txt"]})
    steps.append({"ev": "restores", "paths": ["d"]})
    steps.append({"ev": "lsfiles"})
    steps.append({"ev": "status"})
    steps.append(w("zzz_last.txt", "last\n"))                            # the new file is the last entry of the staging area
    steps.append(w("e/m1", "m1 changed\n"))
    steps.append({"ev": "add", "paths": ["zzz_last.txt", "e"]})
    steps.append({"ev": "restores", "paths": ["zzz_last.txt", "e/m1"]})
    steps.append({"ev": "lsfiles"})
    steps.append({"ev": "remove", "p": "e/m2"})                            # add: a deleted path named before a modified one
    steps.append(w("e/m1", "m1 again\n"))
    steps.append({"ev": "add", "paths": ["e/m2", "e/m1"]})
    steps.append({"ev": "lsfiles"})
    steps.append({"ev": "rm", "paths": ["top.txt", "d"]})
    steps.append({"ev": "lsfiles"})
    steps.append({"ev": "status"})
    steps.append(w("fresh/x", "x\n"))                                      # a directory that exists only in the staging area
    steps.append(w("fresh/sub/y", "y\n"))
    steps.append({"ev": "add", "paths": ["fresh"]})
    steps.append({"ev": "restores", "paths": ["fresh"]})
    steps.append({"ev": "lsfiles"})
    steps.append({"ev": "add", "paths": ["fresh"]})
    steps.append({"ev": "restores", "paths": ["fresh/sub"]})
    steps.append({"ev": "lsfiles"})
    save("restore_staged_mix", ["C09", "C04", "C06", "C18"], steps)


def add_dir_member():
    """add of a directory followed by a member that is tracked and gone from the working tree, in both orders and through '.'"""
    steps = head()
    for p_ in ("src/a.txt", "src/b.txt", "src/c.txt", "c.txt", "s/x", "s/y"):
        steps.append(w(p_, p_ + "\n"))
    steps.append({"ev": "add", "paths": ["."]})
    steps.append({"ev": "commit", "msg": "base"})
    steps.append({"ev": "remove", "p": "src/b.txt"})
    steps.append(w("src/a.txt", "a changed\n"))
    steps.append({"ev": "add", "paths": ["src", "src/b.txt"]})
    steps.append({"ev": "lsfiles"})
    steps.append({"ev": "remove", "p": "s/x"})
    steps.append({"ev": "add", "paths": [".", "s/x"]})
    steps.append({"ev": "lsfiles"})
    steps.append({"ev": "remove", "p": "src/c.txt"})
    steps.append({"ev": "add", "paths": ["src/c.txt", "src"]})
    steps.append({"ev": "lsfiles"})
    steps.append({"ev": "remove", "p": "s/y"})
    steps.append({"ev": "add", "paths": ["s", "src", "s/y"]})             # the directory has no file left
    steps.append({"ev": "lsfiles"})
    steps.append({"ev": "status"})
    save("add_dir_member", ["C04", "C06"], steps)


def affix_branches():
    """branches whose names are a prefix or a suffix of one another: switch and rename between them in both directions"""
    steps = head()
    steps.append(w("a", "1"))
    steps.append({"ev": "add", "paths": ["a"]})
    steps.append({"ev": "commit", "msg": "one"})
    steps.append({"ev": "branch", "name": "fix"})
    steps.append({"ev": "switchc", "name": "hotfix"})
    steps.append(w("a", "2"))
    steps.append({"ev": "add", "paths": ["a"]})
    steps.append({"ev": "commit", "msg": "two"})
    steps.append({"ev": "switch", "name": "fix"})                        # from hotfix to its suffix, at another commit
    steps.append({"ev": "reflog"})
    steps.append({"ev": "status"})
    steps.append({"ev": "switch", "name": "hotfix"})
    steps.append({"ev": "reflog"})
    steps.append({"ev": "branchr", "name": "hotfix2"})
    steps.append(w("a", "3"))
    steps.append({"ev": "add", "paths": ["a"]})
    steps.append({"ev": "commit", "msg": "three"})
    steps.append({"ev": "branchr", "name": "hotfix"})                    # back to the prefix of the current name
    steps.append({"ev": "status"})
    steps.append({"ev": "log", "n": 5})
    steps.append({"ev": "branchlist"})
    steps.append({"ev": "branchr", "name": "fix2"})                      # hotfix -> fix2: no relation to hotfix, prefix fix exists
    steps.append({"ev": "switch", "name": "fix"})
    steps.append({"ev": "reflog"})
    steps.append({"ev": "switch", "name": "main"})
    steps.append({"ev": "branchr", "name": "main-old"})
    steps.append(w("a", "4"))
    steps.append({"ev": "add", "paths": ["a"]})
    steps.append({"ev": "commit", "msg": "four"})
    steps.append({"ev": "branchr", "name": "main"})
    steps.append({"ev": "status"})
    steps.append({"ev": "log", "n": 5})
    steps.append({"ev": "switchc", "name": "ain"})                       # a suffix of main
    steps.append({"ev": "switch", "name": "main"})
    steps.append({"ev": "switch", "name": "ain"})
    steps.append({"ev": "branchd", "name": "main"})
    steps.append({"ev": "branchlist"})
    steps.append({"ev": "reflog"})
    steps.append({"ev": "revparse", "names": ["HEAD", "ain", "fix", "fix2"]})
    steps.append({"ev": "reset", "mode": "soft", "arg": esc("HEAD@{3}")})
    steps.append({"ev": "reflog"})
    save("affix_branches", ["C11", "C03", "C10", "C14"], steps)


def key_case():
    """configuration keys that differ from the identity keys in letter case only are other keys"""
    steps = [{"ev": "init"}]
    steps.append({"ev": "config", "key": "user.Name", "value": esc("Bob Builder")})
    steps.append({"ev": "config", "key": "user.email", "value": "bob@example.com"})
    steps.append(w("a", "1"))
    steps.append({"ev": "add", "paths": ["a"]})
    steps.append({"ev": "commit", "msg": "refused"})                     # no name is configured
    steps.append({"ev": "config", "global": True, "key": "user.NAME", "value": esc("Global Bob")})
    steps.append({"ev": "commit", "msg": "refused2"})
    steps.append({"ev": "config", "key": "user.name", "value": esc("Real Bob")})
    steps.append({"ev": "commit", "msg": "one"})
    steps.append({"ev": "log", "n": 1})
    steps.append({"ev": "config", "key": "user.Email", "value": "other@example.com"})
    steps.append(w("a", "2"))
    steps.append({"ev": "add", "paths": ["a"]})
    steps.append({"ev": "commit", "msg": "two"})                         # the e-mail in effect is still bob@example.com
    steps.append({"ev": "log", "n": 2})
    save("key_case", ["C20", "C12", "C02"], steps)
    # the other half: only the e-mail is spelled in another case
    steps = [{"ev": "init"}]
    steps.append({"ev": "config", "global": True, "key": "user.name", "value": esc("Carol C")})
    steps.append({"ev": "config", "key": "user.Email", "value": "carol@example.com"})
    steps.append(w("a", "1"))
    steps.append({"ev": "add", "paths": ["a"]})
    steps.append({"ev": "commit", "msg": "refused"})
    steps.append({"ev": "lsfiles"})
    steps.append({"ev": "config", "global": True, "key": "user.email", "value": "carol@example.org"})
    steps.append({"ev": "commit", "msg": "one"})
    steps.append({"ev": "log", "n": 1})
    save("key_case2", ["C20", "C12"], steps)


def fs_corpus3():
    """reset --hard onto an empty file and away from it, for the fault enumeration"""
    steps = head()
    steps.append(w("notes.txt", ""))
    steps.append(w("keep.txt", "k\n"))
    steps.append({"ev": "add", "paths": ["."]})
    steps.append({"ev": "commit", "msg": "base"})
    steps.append(w("notes.txt", "remember the milk\n"))
    steps.append({"ev": "add", "paths": ["notes.txt"]})
    steps.append({"ev": "commit", "msg": "second"})
    steps.append({"ev": "reset", "mode": "hard", "arg": esc("HEAD@{1}")})   # the target holds an empty file, the working tree a full one
    steps.append({"ev": "reset", "mode": "hard", "arg": esc("HEAD@{1}")})   # and the other way round
    steps.append(w("notes.txt", ""))
    steps.append({"ev": "restore", "paths": ["notes.txt"]})
    # a configuration file larger than one read buffer (4096 bytes): a later read of it can fail after an earlier one succeeded
    for i in range(4):
        steps.append({"ev": "config", "key": "notes.k%d" % i, "value": ("%d" % i) * 1500})
    steps.append({"ev": "config", "key": "core.editor", "value": "vi"})
    steps.append({"ev": "config", "global": True, "key": "core.pager", "value": "less"})
    save("fs_corpus3", ["C16"], steps)


def fs_corpus4():
    """renames whose new name differs from the old one in letter case only, or is a prefix of it, for the crash enumeration"""
    steps = head()
    steps.append(w("a", "1"))
    steps.append({"ev": "add", "paths": ["a"]})
    steps.append({"ev": "commit", "msg": "one"})
    steps.append({"ev": "branchr", "name": "Main"})
    steps.append({"ev": "branchr", "name": "Main-old"})
    steps.append({"ev": "branchr", "name": "Main"})
    steps.append({"ev": "switchc", "name": "dev"})
    steps.append({"ev": "branchr", "name": "Dev"})
    save("fs_corpus4", ["C15"], steps)


def symlink_names():
    """symbolic links with names that are not excluded, pointing at excluded files: add stages the link's own name"""
    steps = head()
    for p_ in ("build/out.o", "fw.bin", "src/main.txt", "README.txt"):
        steps.append(w(p_, p_ + "\n"))
    steps.append({"ev": "write", "p": ".goitignore", "data": "build/\n*.bin\n", "old": False})
    steps.append({"ev": "symlink", "p": "latest", "to": "build/out.o"})
    steps.append({"ev": "symlink", "p": "current", "to": "fw.bin"})
    steps.append({"ev": "symlink", "p": "src/readme", "to": "README.txt"})
    steps.append({"ev": "status"})
    steps.append({"ev": "add", "paths": ["."]})
    steps.append({"ev": "lsfiles"})
    steps.append({"ev": "status"})
    steps.append({"ev": "commit", "msg": "base"})
    steps.append({"ev": "add", "paths": ["latest"]})
    steps.append({"ev": "add", "paths": ["src", "current"]})
    steps.append({"ev": "lsfiles"})
    steps.append(w("build/out.o", "rebuilt\n"))
    steps.append({"ev": "status"})
    steps.append({"ev": "add", "paths": ["latest", "build/out.o"]})
    steps.append({"ev": "lsfiles"})
    steps.append({"ev": "add", "paths": ["."]})
    steps.append({"ev": "lsfiles"})
    steps.append({"ev": "status"})
    save("symlink_names", ["C17", "C04"], steps)


def sibling_reset():
    """a directory next to files named like it plus a byte below '/': resets to and from such snapshots, then lookups by name"""
    steps = head()
    for p_ in ("lib/util.go", "lib.go", "lib-old", "README", "docs/guide.txt", "docs.md", "src/a/x", "src/a.b", "src/a-1/y"):
        steps.append(w(p_, p_ + "\n"))
    steps.append({"ev": "add", "paths": ["."]})
    steps.append({"ev": "commit", "msg": "base"})
    steps.append(w("README", "second\n"))
    steps.append({"ev": "add", "paths": ["README"]})
    steps.append({"ev": "commit", "msg": "second"})
    steps.append({"ev": "reset", "mode": "hard", "arg": esc("HEAD@{1}")})
    steps.append({"ev": "lsfiles"})
    steps.append({"ev": "status"})
    steps.append({"ev": "writetree"})
    steps.append({"ev": "catfile", "flag": "p", "idref": "tree:0"})
    steps.append({"ev": "catfile", "flag": "p", "idref": "tree:1"})
    steps.append({"ev": "catfile", "flag": "p", "idref": "tree:2"})
    steps.append({"ev": "catfile", "flag": "p", "idref": "tree:3"})
    steps.append({"ev": "add", "paths": ["lib/util.go"]})                # unchanged: nothing may change
    steps.append({"ev": "lsfiles"})
    steps.append({"ev": "reset", "mode": "mixed", "arg": esc("HEAD@{0}")})
    steps.append({"ev": "lsfiles"})
    steps.append({"ev": "status"})
    steps.append({"ev": "commit", "msg": "nothing"})                       # refused: nothing is staged
    steps.append({"ev": "rm", "paths": ["lib/util.go", "src/a/x"]})
    steps.append({"ev": "lsfiles"})
    steps.append({"ev": "restores", "paths": ["lib", "src"]})
    steps.append({"ev": "lsfiles"})
    steps.append({"ev": "restore", "paths": ["lib", "src"]})
    steps.append({"ev": "status"})
    save("sibling_reset", ["C08", "C06", "C04", "C07", "C01", "C05", "C09", "C13"], steps)


def commit_like_blob():
    """files whose bytes read like a commit (tree line, signs, blank line, message): their ids are no commits for update-ref"""
    steps = head()
    steps.append(w("a.txt", "plain\n"))
    steps.append({"ev": "add", "paths": ["a.txt"]})
    steps.append({"ev": "commit", "msg": "base"})
    steps.append({"ev": "branch", "name": "dev"})
    t = "4b825dc642cb6eb9a060e54bf8d69288fbee4904"
    steps.append(w("notes.txt", "tree %s\n\nlooks like a commit\n" % t))
    steps.append(w("full.txt", "tree %s\nauthor A U Thor <a@example.com> 1700000000 +0000\ncommitter A U Thor <a@example.com> 1700000000 +0000\n\nmessage\n" % t))
    steps.append(w("parent.txt", "tree %s\nparent %s\nauthor A <a@example.com> 1 +0000\ncommitter A <a@example.com> 1 +0000\n\nm\n" % (t, t)))
    steps.append({"ev": "add", "paths": ["."]})
    for i in range(4):
        steps.append({"ev": "updateref", "ref": "refs/heads/dev", "idref": "blob:%d" % i})
        steps.append({"ev": "updateref", "ref": "refs/heads/main", "idref": "blob:%d" % i})
        steps.append({"ev": "catfile", "flag": "t", "idref": "blob:%d" % i})
    steps.append({"ev": "updateref", "ref": "refs/heads/dev", "idref": "tree:0"})
    steps.append({"ev": "branchlist"})
    steps.append({"ev": "revparse", "names": ["HEAD", "dev"]})
    steps.append({"ev": "commit", "msg": "second"})
    for i in range(4):
        steps.append({"ev": "updateref", "ref": "refs/heads/dev", "idref": "blob:%d" % i})
    steps.append({"ev": "log", "n": 3})
    save("commit_like_blob", ["C03", "C10", "C01", "C18"], steps)


def refname_args():
    """branch commands given the full reference name of an existing branch"""
    steps = head()
    steps.append(w("a", "1"))
    steps.append({"ev": "add", "paths": ["a"]})
    steps.append({"ev": "commit", "msg": "one"})
    steps.append({"ev": "branch", "name": "dev"})
    for args in (("switch", "refs/heads/dev"), ("switch", "refs/heads/main"), ("switch", "heads/dev"), ("branch", "-d", "refs/heads/dev"),
                 ("branch", "-r", "refs/heads/dev"), ("switch", "-c", "refs/heads/dev"), ("branch", "refs/heads/main"),
                 ("rev-parse", "refs/heads/dev"), ("update-ref", "dev", "HEAD")):
        steps.append(raw(args[0], *args[1:]))
        steps.append({"ev": "branchlist"})
    steps.append({"ev": "switch", "name": "dev"})
    steps.append({"ev": "reflog"})
    save("refname_args", ["C10", "C18", "C03", "C11"], steps)


def id_args():
    """commands that take an object id, given ids that are well-formed but special: the zero id Goit writes into its own journal,
    all f, upper case, one digit short or long, an abbreviation"""
    steps = head()
    steps.append(w("a", "1"))
    steps.append({"ev": "add", "paths": ["a"]})
    steps.append({"ev": "commit", "msg": "one"})
    steps.append({"ev": "branch", "name": "other"})
    z, f = "0" * 40, "f" * 40
    for args in (("cat-file", "-t", z), ("cat-file", "-p", z), ("cat-file", z), ("cat-file", "-t", f), ("cat-file", "-p", f),
                 ("cat-file", "-p", "@HEADID@0"), ("cat-file", "-t", "0@HEADID@"), ("cat-file", "-p", "@HEADID@", "@HEADID@"),
                 ("cat-file", "-t"), ("cat-file", "-p", ""), ("cat-file", "-p", "HEAD"), ("cat-file", "-t", "main"),
                 ("update-ref", "refs/heads/other", z), ("update-ref", "refs/heads/other", f), ("update-ref", "refs/heads/other", "@HEADID@0"),
                 ("update-ref", "refs/heads/other", ""), ("rev-parse", z), ("hash-object", z), ("reset", "--hard", z), ("reset", "--soft", "HEAD@{" + z + "}")):
        steps.append(raw(*args))
    steps.append({"ev": "catfile", "flag": "t", "idref": "zero"})
    steps.append({"ev": "catfile", "flag": "p", "idref": "zero"})
    steps.append({"ev": "catfile", "flag": "p", "idref": "upper"})
    steps.append({"ev": "catfile", "flag": "p", "idref": "short"})
    steps.append({"ev": "updateref", "ref": "refs/heads/other", "idref": "zero"})
    steps.append({"ev": "branchlist"})
    steps.append({"ev": "reflog"})
    save("id_args", ["C18", "C01", "C10", "C03"], steps)


def home_symlink():
    """~/.goitconfig is a symbolic link into a dotfiles directory: the global identity behind it is the one in effect"""
    steps = [{"ev": "init"}]
    steps.append({"ev": "config", "global": True, "key": "user.name", "value": esc("Dot Files")})
    steps.append({"ev": "config", "global": True, "key": "user.email", "value": "dot@example.com"})
    steps.append({"ev": "config", "global": True, "key": "core.editor", "value": "vi"})
    steps.append({"ev": "homelink"})
    steps.append(w("a", "1"))
    steps.append({"ev": "add", "paths": ["a"]})
    steps.append({"ev": "commit", "msg": "one"})
    steps.append({"ev": "log", "n": 1})
    steps.append({"ev": "homelink"})
    steps.append({"ev": "config", "key": "core.x", "value": "y"})                      # a local write leaves the global file alone
    steps.append({"ev": "config", "global": True, "key": "core.pager", "value": "less"})   # a global write keeps the other keys
    steps.append(w("a", "2"))
    steps.append({"ev": "add", "paths": ["a"]})
    steps.append({"ev": "commit", "msg": "two"})
    steps.append({"ev": "log", "n": 2})
    save("home_symlink", ["C20", "C12"], steps)


def hash_ignore():
    """directory entries of .goitignore whose names begin with '#' or ';' are entries like any other"""
    steps = head()
    for p_ in ("#recycle/old/junk.txt", ";old/x", "src/main.txt", "build/o.txt", "run.log", "#notes"):
        steps.append(w(p_, p_ + "\n"))
    steps.append({"ev": "write", "p": ".goitignore", "data": "build/\n\n#recycle/\n;old/\n*.log\n", "old": False})
    steps.append({"ev": "status"})
    steps.append({"ev": "add", "paths": ["."]})
    steps.append({"ev": "lsfiles"})
    steps.append({"ev": "add", "paths": [esc("#recycle")]})
    steps.append({"ev": "add", "paths": [esc(";old/x")]})
    steps.append({"ev": "add", "paths": [esc("#recycle/old/junk.txt"), "src"]})
    steps.append({"ev": "lsfiles"})
    steps.append({"ev": "commit", "msg": "base"})
    steps.append({"ev": "status"})
    steps.append(w("#recycle/more.txt", "m\n"))
    steps.append(w("#notes", "changed\n"))
    steps.append({"ev": "status"})
    steps.append({"ev": "add", "paths": ["."]})
    steps.append({"ev": "lsfiles"})
    save("hash_ignore", ["C17", "C13", "C04"], steps)


if __name__ == "__main__":
    name_lengths()
    big_index()
    long_lines()
    long_values()
    many_branches()
    punct_names()
    crlf_ignore()
    punct_identity()
    content_sizes()
    reflog_100()
    empty_states()
    revert_content()
    tz_pairs()
    cli_combos()
    fs_corpus2()
    restore_staged_dirs()
    tracked_then_ignored()
    dup_args()
    identity_same()
    staged_rename()
    twin_dirs()
    ignored_dir_becomes_file()
    deep_path()
    spelled_args()
    dotgoit_names()
    ignore_nested_args()
    spelled_rm()
    revparse_orders()
    nested_removal()
    tracked_ignored_ops()
    restore_staged_mix()
    add_dir_member()
    affix_branches()
    key_case()
    fs_corpus3()
    symlink_names()
    sibling_reset()
    commit_like_blob()
    refname_args()
    id_args()
    home_symlink()
    hash_ignore()
    fs_corpus4()
