#!/bin/bash
# regress_mutants.sh [tier] [names...]: apply every seeded change to a scratch worktree of /repo's HEAD and run the property's check.
# Prints one line per change: <name> <exit code> (1 = caught). /repo itself is never modified.
tier=${1:-quick}; shift
export GOFLAGS=-mod=mod GOPROXY=off GOSUMDB=off GOTOOLCHAIN=local HOME=/root
names="$@"; [ -z "$names" ] && names=$(ls /verif/seeded)
mkdir -p /tmp/mreg
for n in $names; do
  prop=${n%%_*}
  wt=/tmp/mreg/$n
  git -C /repo worktree remove --force $wt 2>/dev/null
  git -C /repo worktree add -q --detach $wt HEAD || { echo "$n worktree-failed"; continue; }
  if ! git -C $wt apply --3way /verif/seeded/$n/patch.diff 2>/tmp/mreg/$n.apply.err; then
    echo "$n patch-does-not-apply"; git -C /repo worktree remove --force $wt; continue
  fi
  (cd $wt && go build ./... ) 2>/tmp/mreg/$n.build.err || { echo "$n build-failed"; git -C /repo worktree remove --force $wt; continue; }
  cd /verif && VERIF_REPO=$wt ./harness/bin/verif check $prop $tier > /tmp/mreg/$n.out 2>&1; ex=$?
  echo "$n $ex $(grep -c VIOLATION /tmp/mreg/$n.out) violations"
  git -C /repo worktree remove --force $wt
done
