#!/bin/bash
# save_mutant.sh <ID> <name>: store a confirmed seeded change under /verif/seeded/<name>/
id=$1; name=${2:-$1}
d=/verif/seeded/$name; mkdir -p $d
cp ${MUTBASE:-/tmp/mut}/$id.patch.diff $d/patch.diff
cp ${MUTBASE:-/tmp/mut}/$id.demo.sh $d/demo.sh
python3 - "$id" "$name" <<'PY'
import json,sys
id,name=sys.argv[1],sys.argv[2]
import os
base=os.environ.get('MUTBASE','/tmp/mut')
m=json.load(open('%s/%s.meta.json'%(base,id)))
res=open('%s/%s.result.txt'%(base,id)).read().strip().split('\n')
m['confirmed']={"ran":"tools/try_mutant.sh (scratch worktree with the patch applied; go test of the repository; demo with unchanged and changed binary; bin/check with VERIF_REPO=<worktree>)","result":res}
m['demo']='demo.sh'
json.dump(m,open('/verif/seeded/%s/meta.json'%name,'w'),indent=1)
PY
echo saved $d
