#!/bin/bash
# try_mutant.sh <ID> [tier] [dir]: confirm a seeded change (tests pass, demo FAIL/PASS) and run the property's check against it.
# The change lives in a scratch worktree <dir> (default ${MUTBASE:-/tmp/mut}/<ID>) with the patch applied; /repo is never touched.
id=$1; tier=${2:-quick}; wt=${3:-${MUTBASE:-/tmp/mut}/$id}; prop=${4:-$id}
export GOFLAGS=-mod=mod GOPROXY=off GOSUMDB=off GOTOOLCHAIN=local HOME=/root
out=${MUTBASE:-/tmp/mut}/$id.result.txt; : > $out
( cd $wt && go build -o ${MUTBASE:-/tmp/mut}/$id.goit.changed . ) || { echo "BUILD FAILED" | tee -a $out; exit 2; }
( cd $wt && go test -vet=off -count=1 ./... 2>&1 | grep -v "no test files" | grep -v "^ok" ) > ${MUTBASE:-/tmp/mut}/$id.tests.txt
if [ -s ${MUTBASE:-/tmp/mut}/$id.tests.txt ]; then echo "TESTS FAIL with the change" | tee -a $out; cat ${MUTBASE:-/tmp/mut}/$id.tests.txt; else echo "tests pass with the change" | tee -a $out; fi
( cd /repo && go build -o ${MUTBASE:-/tmp/mut}/$id.goit.orig . )
demo=${MUTBASE:-/tmp/mut}/$id.demo.sh
if [ -f $demo ]; then
  bash $demo ${MUTBASE:-/tmp/mut}/$id.goit.orig > ${MUTBASE:-/tmp/mut}/$id.demo.orig.txt 2>&1; eo=$?
  bash $demo ${MUTBASE:-/tmp/mut}/$id.goit.changed > ${MUTBASE:-/tmp/mut}/$id.demo.changed.txt 2>&1; ec=$?
  echo "demo: unchanged exit=$eo changed exit=$ec" | tee -a $out
fi
rm -f ${MUTBASE:-/tmp/mut}/$id.goit.orig ${MUTBASE:-/tmp/mut}/$id.goit.changed
cd /verif && VERIF_REPO=$wt VERIF_DEBUG=1 ./harness/bin/verif check $prop $tier > ${MUTBASE:-/tmp/mut}/$id.check.txt 2>&1; ex=$?
echo "check $prop $tier exit=$ex" | tee -a $out
grep "DEBUG\|VIOLATION\|KNOWN\|INFRA\|$tier:" ${MUTBASE:-/tmp/mut}/$id.check.txt | cut -c1-220 | head -12 | tee -a $out
