package main

import (
	"bytes"
	"encoding/hex"
	"fmt"
	"math/rand"
	"path"
	"regexp"
	"sort"
	"strconv"
	"strings"
	"unicode/utf8"
)

type Scenario struct {
	Name  string `json:"name"`
	TZ    int    `json:"tz"`
	Steps []M    `json:"steps"`
}

// genContent makes a representative of a content class.
func genContent(class string, size int, rng *rand.Rand) []byte {
	switch class {
	case "empty":
		return []byte{}
	case "text":
		words := []string{"alpha", "beta", "gamma", "delta", "func", "return", "x", "y", "\n", " ", "\t", "{", "}"}
		var b bytes.Buffer
		for b.Len() < size {
			b.WriteString(words[rng.Intn(len(words))])
		}
		return b.Bytes()
	case "nul":
		b := make([]byte, size)
		for i := range b {
			if rng.Intn(3) == 0 {
				b[i] = 0
			} else {
				b[i] = byte(rng.Intn(256))
			}
		}
		if len(b) > 0 {
			b[0] = 0
		}
		return b
	case "newline_only":
		return bytes.Repeat([]byte("\n"), size)
	case "invalid_utf8":
		b := make([]byte, size)
		for i := range b {
			b[i] = byte(0x80 + rng.Intn(0x80))
		}
		return b
	case "header_like":
		pre := []string{"blob 3\x00abc", "tree 0\x00", "commit 10\x00", "12 ", " 7", "0", "blob", "blob 3"}[rng.Intn(8)]
		b := []byte(pre)
		for len(b) < size {
			b = append(b, byte('a'+rng.Intn(26)))
		}
		return b
	case "digits_space":
		b := make([]byte, size)
		for i := range b {
			b[i] = "0123456789 "[rng.Intn(11)]
		}
		return b
	case "big_compressible":
		return bytes.Repeat([]byte{byte('a' + rng.Intn(26))}, size)
	case "big_random", "random":
		b := make([]byte, size)
		rng.Read(b)
		return b
	case "crlf":
		return bytes.Repeat([]byte("line\r\n"), size/6+1)
	}
	return []byte(class)
}

// materialise turns content specs ("data", "hex", "gen") of a write event into a token.
func materialise(tr *Trace, ev M) {
	if _, ok := ev["c"]; ok {
		return
	}
	var b []byte
	switch {
	case ev["data"] != nil:
		b = []byte(ev["data"].(string))
	case ev["hex"] != nil:
		b, _ = hex.DecodeString(ev["hex"].(string))
	case ev["gen"] != nil:
		g := ev["gen"].(M)
		b = genContent(g["class"].(string), toInt(g["size"]), rand.New(rand.NewSource(int64(toInt(g["seed"])))))
	default:
		return
	}
	ev["c"] = tr.AddContent(b)
	delete(ev, "data")
	delete(ev, "hex")
	delete(ev, "gen")
}

func sortedKeys(m M) []string {
	ks := make([]string, 0, len(m))
	for k := range m {
		ks = append(ks, k)
	}
	sort.Strings(ks)
	return ks
}

func refId(st M, branch string) string {
	raw, ok := st["refs"].(M)[branch]
	if !ok {
		return ""
	}
	s := string(Unesc(raw.(string)))
	if isHex40(s) {
		return s
	}
	return ""
}

func headId(st M) string {
	h := st["head"].(M)
	if !h["ok"].(bool) {
		return ""
	}
	return refId(st, h["branch"].(string))
}

func objOf(T *Tables, st M, id string) M {
	tok, ok := st["objs"].(M)[id]
	if !ok {
		return nil
	}
	T.mu.Lock()
	defer T.mu.Unlock()
	return T.Objects[tok.(string)]
}

// resolveIds replaces symbolic id references by concrete ids taken from the current state.
func resolveIds(T *Tables, st M, ev M) {
	ref, ok := ev["idref"].(string)
	if !ok {
		return
	}
	pick := func(kind string, n int) string {
		var ids []string
		for _, id := range sortedKeys(st["objs"].(M)) {
			if o := objOf(T, st, id); o != nil && o["k"] == kind {
				ids = append(ids, id)
			}
		}
		if len(ids) == 0 {
			return strings.Repeat("1", 40)
		}
		return ids[n%len(ids)]
	}
	id := ""
	switch {
	case ref == "head":
		id = headId(st)
	case strings.HasPrefix(ref, "branch:"):
		id = refId(st, ref[7:])
	case strings.HasPrefix(ref, "anc:"): // n-th first-parent ancestor of HEAD
		id = headId(st)
		n := 0
		fmt.Sscanf(ref[4:], "%d", &n)
		for i := 0; i < n && id != ""; i++ {
			o := objOf(T, st, id)
			if o == nil || o["k"] != "commit" || len(o["parents"].([]any)) == 0 {
				id = ""
				break
			}
			id = o["parents"].([]any)[0].(string)
		}
	case strings.HasPrefix(ref, "commit:"):
		n := 0
		fmt.Sscanf(ref[7:], "%d", &n)
		id = pick("commit", n)
	case strings.HasPrefix(ref, "blob"):
		n := 0
		fmt.Sscanf(strings.TrimPrefix(ref, "blob:"), "%d", &n)
		id = pick("blob", n)
	case strings.HasPrefix(ref, "tree"):
		n := 0
		fmt.Sscanf(strings.TrimPrefix(ref, "tree:"), "%d", &n)
		id = pick("tree", n)
	case ref == "unknown":
		id = "deadbeefdeadbeefdeadbeefdeadbeefdeadbeef"
	case ref == "short":
		id = "deadbeefdeadbeefdeadbeefdeadbeefdeadbee"
	case ref == "nonhex":
		id = "zzzzbeefdeadbeefdeadbeefdeadbeefdeadbeef"
	case ref == "zero":
		id = strings.Repeat("0", 40)
	case ref == "upper":
		id = strings.ToUpper(headId(st))
	}
	if id == "" {
		id = strings.Repeat("2", 40)
	}
	ev["id"] = id
}

func cloneEv(ev M) M {
	c := M{}
	for k, v := range ev {
		c[k] = v
	}
	return c
}

func runScenario(goit, base string, T *Tables, s *Scenario, obs ObsSpec) *Trace {
	r := NewRunner(goit, base, T)
	r.TZ = s.TZ
	tr := NewTrace(r, obs, s.Name)
	for _, ev0 := range s.Steps {
		ev := cloneEv(ev0)
		materialise(tr, ev)
		resolveIds(T, tr.Cur, ev)
		annotate(T, ev)
		tr.Step(ev)
	}
	return tr
}

func cleanPathArg(b []byte) bool {
	s := string(b)
	if s == "." {
		return true
	}
	if s == "" || strings.HasPrefix(s, "-") || strings.HasPrefix(s, "/") || strings.HasSuffix(s, "/") || strings.Contains(s, "@ROOT@") {
		return false
	}
	for _, c := range strings.Split(s, "/") {
		if c == "" || c == "." || c == ".." {
			return false
		}
	}
	for _, c := range b {
		if c < 0x20 || c == 0x7f {
			return false
		}
	}
	return utf8Valid(b)
}

func cleanBranchName(b []byte) bool {
	s := string(b)
	if s == "" || s == "." || s == ".." || strings.HasPrefix(s, "-") {
		return false
	}
	for _, c := range b {
		if !(c >= 'a' && c <= 'z' || c >= 'A' && c <= 'Z' || c >= '0' && c <= '9' || c == '-' || c == '_' || c == '.') {
			return false
		}
	}
	return true
}

func cleanConfigValue(b []byte) bool {
	s := string(b)
	if s == "" || strings.HasPrefix(s, " ") || strings.HasSuffix(s, " ") || strings.Contains(s, "  ") || !utf8Valid(b) {
		return false
	}
	for _, r := range s {
		if r < 0x20 || r == 0x7f {
			return false
		}
	}
	return true
}

func cleanConfigWord(s string) bool {
	if s == "" {
		return false
	}
	for _, c := range []byte(s) {
		if !(c >= 'a' && c <= 'z' || c >= 'A' && c <= 'Z' || c >= '0' && c <= '9' || c == '_' || c == '-') {
			return false
		}
	}
	return true
}

var resetArgRe = regexp.MustCompile(`^HEAD@\{([0-9]+)\}$`)

// annotate adds the syntactic facts about an event that the clauses refer to (never facts about the state).
func annotate(T *Tables, ev M) {
	get := func(k string) []byte {
		if v, ok := ev[k].(string); ok {
			return Unesc(v)
		}
		return nil
	}
	dom := true
	switch ev["ev"] {
	case "add", "rm", "restore", "restores", "hashobject":
		ps, _ := ev["paths"].([]any)
		if len(ps) == 0 {
			dom = false
		}
		for _, p := range ps {
			b := Unesc(p.(string))
			T.PathName(b)
			if !cleanPathArg(b) {
				dom = false
			}
			if ev["ev"] != "add" && string(b) == "." {
				dom = false
			}
			if string(b) == ".goit" || strings.HasPrefix(string(b), ".goit/") {
				dom = false // a path inside the metadata directory is a hostile argument (C17, C18), not a C04/C09 input
			}
		}
		// another spelling of clean paths (./f, d/./g, d//g, d/../f): what the arguments name after lexical cleaning
		if !dom && len(ps) > 0 && (ev["ev"] == "restore" || ev["ev"] == "rm") {
			var cps []any
			for _, p := range ps {
				a := string(Unesc(p.(string)))
				if ev["ev"] == "rm" && len(a) > 1 && strings.HasSuffix(a, "/") && !strings.HasSuffix(a, "//") {
					a = strings.TrimSuffix(a, "/") // `docs/` names the directory docs
				}
				if a == "" || strings.HasPrefix(a, "-") || strings.HasPrefix(a, "/") || strings.HasSuffix(a, "/") || strings.Contains(a, "@ROOT@") || strings.Contains(a, "\\") || strings.Contains(a, "..") {
					cps = nil
					break
				}
				c := path.Clean(a)
				if c == "." || c == ".." || strings.HasPrefix(c, "../") || c == ".goit" || strings.HasPrefix(c, ".goit/") || !cleanPathArg([]byte(c)) {
					cps = nil
					break
				}
				T.PathName([]byte(c))
				cps = append(cps, EscS(c))
			}
			if len(cps) == len(ps) {
				ev["cpaths"] = cps
			}
		}
	case "branch", "branchr", "switchc", "switch", "branchd":
		T.Name(get("name"))
		dom = cleanBranchName(get("name"))
	case "reset":
		m := resetArgRe.FindStringSubmatch(string(get("arg")))
		ev["wf"] = m != nil
		ev["n"] = 0
		if m != nil {
			n, err := strconv.Atoi(m[1])
			if err != nil || n > 1<<20 {
				ev["wf"] = false
			} else {
				ev["n"] = n
			}
		}
		if _, ok := ev["mode"]; !ok {
			ev["mode"] = "default"
		}
	case "commit":
		msg := get("msg")
		first := msg
		if i := bytes.IndexByte(msg, '\n'); i >= 0 {
			first = msg[:i]
		}
		ev["msg1"] = Esc(first)
		dom = utf8Valid(msg) && len(msg) > 0 && !bytes.ContainsAny(msg, "\r\x00")
		if bytes.HasSuffix(msg, []byte("\n")) {
			dom = false
		}
	case "config":
		key := string(get("key"))
		parts := strings.Split(key, ".")
		ev["sec"], ev["k"] = "", ""
		if len(parts) == 2 {
			ev["sec"], ev["k"] = EscS(parts[0]), EscS(parts[1])
		}
		dom = len(parts) == 2 && cleanConfigWord(parts[0]) && cleanConfigWord(parts[1]) && cleanConfigValue(get("value"))
	case "updateref":
		ref := string(get("ref"))
		const pfx = "refs/heads/"
		nm := strings.TrimPrefix(ref, pfx)
		ev["exact"] = strings.HasPrefix(ref, pfx) && nm != "" && !strings.Contains(nm, "/")
		ev["branch"] = T.Name([]byte(nm))
		if _, ok := ev["id"]; !ok {
			ev["id"] = ""
		}
	}
	if _, ok := ev["dom"]; !ok {
		ev["dom"] = dom
	} else if !dom {
		ev["dom"] = false
	}
}

func utf8Valid(b []byte) bool { return utf8.Valid(b) }
