package main

import (
	"bufio"
	"encoding/json"
	"os"
)

// Trace records one linear execution: state lines and step lines (ndjson).
type Trace struct {
	R        *Runner
	Obs      ObsSpec
	Lines    []M
	Events   []M // the concrete events, for replay files
	Cur      M
	CurLine  int // 1-based line number of the current state line
	Contents map[string][]byte
	Dead     bool // the last step left the repository unusable: stop
	Label    string
}

func NewTrace(r *Runner, obs ObsSpec, label string) *Trace {
	t := &Trace{R: r, Obs: obs, Contents: map[string][]byte{}, Label: label}
	st := r.T.Project(r.Root, r.Home)
	t.pushState(st, nil)
	return t
}

func (t *Trace) pushState(st M, prev M) {
	obs := t.R.Observe(t.Obs, st, prev)
	t.Lines = append(t.Lines, M{"kind": "state", "st": st, "obs": obs, "trace": t.Label})
	t.Cur = st
	t.CurLine = len(t.Lines)
}

// AddContent registers bytes for a later "write" event and returns the token.
func (t *Trace) AddContent(b []byte) string {
	tok := t.R.T.Content(b)
	t.Contents[tok] = b
	return tok
}

// Step executes one event, projects the result and appends a step line and (if anything changed or
// the event is a touch) a new state line. Returns the step line.
func (t *Trace) Step(ev M) M {
	step := M{"kind": "step", "trace": t.Label}
	for k, v := range ev {
		step[k] = v
	}
	pre := t.Cur
	step["prel"] = t.CurLine
	step["tz"] = t.R.TZ
	isEnv, err := t.R.ApplyEnv(ev, t.Contents)
	if isEnv {
		step["cls"] = "env"
		if err != nil {
			step["res"] = "enverr"
		} else {
			step["res"] = "ok"
		}
		step["exit"] = 0
		step["t0"], step["t1"] = 0, 0
		step["out"] = M{"c": "", "esc": "", "nl": false, "lines": []any{}}
		step["err"] = ""
	} else {
		argv, _ := Argv(ev)
		x := t.R.RunGoit(argv...)
		step["cls"] = "cmd"
		step["res"] = x.Res
		step["exit"] = x.Exit
		step["t0"], step["t1"] = int(x.T0), int(x.T1)
		step["out"] = t.R.catP(x.Stdout)
		e := x.Stderr
		if len(e) > 300 {
			e = e[:300]
		}
		step["err"] = Esc(e)
		av := []any{}
		for _, a := range argv {
			av = append(av, EscS(a))
		}
		step["argv"] = av
	}
	st := t.R.T.Project(t.R.Root, t.R.Home)
	if st["dg"] == pre["dg"] && ev["ev"] != "touch" && ev["ev"] != "settz" {
		step["postl"] = t.CurLine
	} else {
		t.pushState(st, pre)
		step["postl"] = t.CurLine
	}
	// step line goes after its post state so that every reference points backwards
	t.Lines = append(t.Lines, step)
	t.Events = append(t.Events, ev)
	return step
}

func writeNdjson(path string, lines []M) error {
	f, err := os.Create(path)
	if err != nil {
		return err
	}
	w := bufio.NewWriterSize(f, 1<<20)
	enc := json.NewEncoder(w)
	enc.SetEscapeHTML(false)
	for _, l := range lines {
		if err := enc.Encode(l); err != nil {
			return err
		}
	}
	if err := w.Flush(); err != nil {
		return err
	}
	return f.Close()
}

func writeJson(path string, v any) error {
	b, err := json.Marshal(v)
	if err != nil {
		return err
	}
	return os.WriteFile(path, b, 0o666)
}
