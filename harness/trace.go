package main

import (
	"bufio"
	"encoding/json"
	"os"
)

// Trace records one linear execution: state lines and step lines (ndjson).
type Trace struct {
	R        *Runner
	Obs      ObsSpec
	Lines    []M
	Events   []M // the concrete events, for replay files
	Cur      M
	CurLine  int // 1-based line number of the current state line
	Contents map[string][]byte
	Dead     bool // the last step left the repository unusable: stop
	Label    string
}

func NewTrace(r *Runner, obs ObsSpec, label string) *Trace {
	t := &Trace{R: r, Obs: obs, Contents: map[string][]byte{}, Label: label}
	st := r.T.Project(r.Root, r.Home)
	t.pushState(st, nil)
	return t
}

func (t *Trace) pushState(st M, prev M) {
	obs := t.R.Observe(t.Obs, st, prev)
	t.Lines = append(t.Lines, M{"kind": "state", "st": st, "obs": obs, "trace": t.Label})
	t.Cur = st
	t.CurLine = len(t.Lines)
}

// AddContent registers bytes for a later "write" event and returns the token.
func (t *Trace) AddContent(b []byte) string {
	tok := t.R.T.Content(b)
	t.Contents[tok] = b
	return tok
}

// execStep executes one event in r's repository starting from state pre (recorded at line preLine of lines),
// projects the result and appends the post state line (if anything changed or the event is a touch) and the step line.
func execStep(lines *[]M, r *Runner, obs ObsSpec, label string, preLine int, pre M, ev M, contents map[string][]byte) (int, M, M) {
	step := M{"kind": "step", "trace": label}
	for k, v := range ev {
		step[k] = v
	}
	if v, ok := ev["runtz"]; ok {
		r.TZ = toInt(v)
	}
	step["prel"] = preLine
	step["tz"] = r.TZ
	isEnv, err := r.ApplyEnv(ev, contents)
	if isEnv {
		step["cls"] = "env"
		if err != nil {
			step["res"] = "enverr"
		} else {
			step["res"] = "ok"
		}
		step["exit"] = 0
		step["t0"], step["t1"] = 0, 0
		step["out"] = M{"c": "", "esc": "", "nl": false, "lines": []any{}}
		step["err"] = ""
	} else {
		argv, _ := Argv(ev)
		x := r.RunGoit(argv...)
		step["cls"] = "cmd"
		step["res"] = x.Res
		step["exit"] = x.Exit
		step["t0"], step["t1"] = int(x.T0), int(x.T1)
		step["out"] = r.catP(x.Stdout)
		e := x.Stderr
		if len(e) > 300 {
			e = e[:300]
		}
		step["err"] = Esc(e)
		av := []any{}
		for _, a := range argv {
			av = append(av, EscS(a))
		}
		step["argv"] = av
	}
	st := r.T.Project(r.Root, r.Home)
	postLine := preLine
	post := pre
	if !(st["dg"] == pre["dg"] && ev["ev"] != "touch" && ev["ev"] != "settz") {
		o := r.Observe(obs, st, pre)
		*lines = append(*lines, M{"kind": "state", "st": st, "obs": o, "trace": label})
		postLine = len(*lines)
		post = st
	}
	step["postl"] = postLine
	// the step line goes after its post state so that every reference points backwards
	*lines = append(*lines, step)
	return postLine, post, step
}

// Step executes one event and appends it to the trace. Returns the step line.
func (t *Trace) Step(ev M) M {
	postLine, post, step := execStep(&t.Lines, t.R, t.Obs, t.Label, t.CurLine, t.Cur, ev, t.Contents)
	t.Cur, t.CurLine = post, postLine
	t.Events = append(t.Events, ev)
	return step
}

func writeNdjson(path string, lines []M) error {
	f, err := os.Create(path)
	if err != nil {
		return err
	}
	w := bufio.NewWriterSize(f, 1<<20)
	enc := json.NewEncoder(w)
	enc.SetEscapeHTML(false)
	for _, l := range lines {
		if err := enc.Encode(l); err != nil {
			return err
		}
	}
	if err := w.Flush(); err != nil {
		return err
	}
	return f.Close()
}

func writeJson(path string, v any) error {
	b, err := json.Marshal(v)
	if err != nil {
		return err
	}
	return os.WriteFile(path, b, 0o666)
}
