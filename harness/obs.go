package main

import (
	"regexp"
	"strings"
	"time"
)

// Output parsers: stdout of the read-only commands -> observation records.
// They look only at the stable structure (section headers, "commit <40hex>" lines), not wording.

func (r *Runner) parseStatus(out []byte) M {
	res := M{"branch": "", "staged": []any{}, "unstaged": []any{}, "untracked": []any{}}
	sect := ""
	staged, unstaged, untracked := []any{}, []any{}, []any{}
	for _, ln := range strings.Split(string(out), "\n") {
		switch {
		case strings.HasPrefix(ln, "On branch "):
			res["branch"] = EscS(strings.TrimPrefix(ln, "On branch "))
		case strings.HasPrefix(ln, "Changes to be committed:"):
			sect = "staged"
		case strings.HasPrefix(ln, "Changes not staged for commit:"):
			sect = "unstaged"
		case strings.HasPrefix(ln, "Untracked files:"):
			sect = "untracked"
		case strings.HasPrefix(ln, "\t"):
			body := ln[1:]
			if sect == "untracked" {
				untracked = append(untracked, r.T.PathName([]byte(body)))
				continue
			}
			i := strings.Index(body, ":")
			if i < 0 {
				continue
			}
			label := body[:i]
			path := strings.TrimLeft(body[i+1:], " ")
			cls := map[string]string{"new file": "new", "modified": "modified", "deleted": "deleted"}[label]
			if cls == "" {
				cls = "other:" + label
			}
			e := M{"c": cls, "p": r.T.PathName([]byte(path))}
			if sect == "staged" {
				staged = append(staged, e)
			} else if sect == "unstaged" {
				unstaged = append(unstaged, e)
			}
		}
	}
	res["staged"], res["unstaged"], res["untracked"] = staged, unstaged, untracked
	return res
}

var lsRe = regexp.MustCompile(`^([0-9a-f]{40})    (.*)$`)

func (r *Runner) parseLs(out []byte) []any {
	ents := []any{}
	for _, ln := range splitLines(out) {
		if m := lsRe.FindStringSubmatch(ln); m != nil {
			ents = append(ents, M{"id": m[1], "p": r.T.PathName([]byte(m[2]))})
		} else {
			ents = append(ents, M{"id": "", "p": r.T.PathName([]byte(ln))})
		}
	}
	return ents
}

func splitLines(out []byte) []string {
	s := string(out)
	if s == "" {
		return nil
	}
	ls := strings.Split(s, "\n")
	if ls[len(ls)-1] == "" {
		ls = ls[:len(ls)-1]
	}
	return ls
}

var reflogRe = regexp.MustCompile(`^([0-9a-f]*) (?:\(.*?\) )?HEAD@\{([0-9]+)\}: ([a-z]+): (.*)$`)

func parseReflog(out []byte) []any {
	ents := []any{}
	for _, ln := range splitLines(out) {
		if m := reflogRe.FindStringSubmatch(ln); m != nil {
			n := 0
			for _, c := range m[2] {
				n = n*10 + int(c-'0')
			}
			ents = append(ents, M{"ok": true, "id7": m[1], "n": n, "kind": m[3], "msg": EscS(m[4])})
		} else {
			ents = append(ents, M{"ok": false, "id7": "", "n": -1, "kind": "", "msg": EscS(ln)})
		}
	}
	return ents
}

func (r *Runner) parseBranchList(out []byte) M {
	names := []any{}
	cur := []any{}
	for _, ln := range splitLines(out) {
		if strings.HasPrefix(ln, "* ") {
			k := r.T.Name([]byte(ln[2:]))
			names = append(names, k)
			cur = append(cur, k)
		} else {
			names = append(names, r.T.Name([]byte(ln)))
		}
	}
	return M{"names": names, "cur": cur}
}

var logCommitRe = regexp.MustCompile(`^commit ([0-9a-f]{40})$`)

// parseLog splits `goit log` output into commit blocks.
func parseLogOut(out []byte) []any {
	ents := []any{}
	var cur M
	lines := strings.Split(string(out), "\n")
	for i := 0; i < len(lines); i++ {
		ln := lines[i]
		if m := logCommitRe.FindStringSubmatch(ln); m != nil {
			cur = M{"id": m[1], "author": "", "date": "", "msg": "", "dok": false, "secs": 0, "off": 0}
			ents = append(ents, cur)
			continue
		}
		if cur == nil {
			continue
		}
		switch {
		case strings.HasPrefix(ln, "Author: ") && cur["author"] == "":
			cur["author"] = EscS(strings.TrimPrefix(ln, "Author: "))
		case strings.HasPrefix(ln, "Date: ") && cur["date"] == "":
			cur["date"] = EscS(strings.TrimPrefix(ln, "Date: "))
			if f := strings.Fields(strings.TrimPrefix(ln, "Date: ")); len(f) >= 3 {
				if tm, err := time.Parse("2006-01-02 15:04:05 -0700", f[0]+" "+f[1]+" "+f[2]); err == nil && tm.Unix() < 1<<31 && tm.Unix() >= 0 {
					_, o := tm.Zone()
					cur["dok"], cur["secs"], cur["off"] = true, int(tm.Unix()), o/60
				}
			}
		case strings.HasPrefix(ln, "\t") && cur["msg"] == "" && cur["date"] != "":
			// message: from after the tab up to the blank line that precedes the next block or the end
			msg := []string{ln[1:]}
			j := i + 1
			for ; j < len(lines); j++ {
				if logCommitRe.MatchString(lines[j]) {
					break
				}
				msg = append(msg, lines[j])
			}
			// Println(commit) adds "\n" after String()'s trailing "\n": drop the two trailing empties
			for k := 0; k < 2 && len(msg) > 1 && msg[len(msg)-1] == ""; k++ {
				msg = msg[:len(msg)-1]
			}
			cur["msg"] = EscS(strings.Join(msg, "\n"))
			if cur["msg"] == "" {
				cur["msg"] = "%"
			}
			i = j - 1
		}
	}
	for _, e := range ents {
		if e.(M)["msg"] == "%" {
			e.(M)["msg"] = ""
		}
	}
	return ents
}

// ObsSpec says which observations to take in each state.
type ObsSpec struct {
	Status, Ls, Reflog, Branches, RevParse, Log, CatFile, Hash bool
	LogKs                                                      []int
}

func obsRes(x ExecResult) string { return x.Res }

// Observe runs the read-only commands in the current state and returns the observation bundle.
func (r *Runner) Observe(spec ObsSpec, st M, prev M) M {
	obs := M{}
	if !st["repo"].(bool) {
		return obs
	}
	if spec.Status {
		x := r.RunGoit("status")
		o := r.parseStatus(x.Stdout)
		o["res"] = x.Res
		obs["status"] = o
	}
	if spec.Ls {
		x := r.RunGoit("ls-files", "-s")
		obs["ls"] = M{"res": x.Res, "ents": r.parseLs(x.Stdout)}
	}
	if spec.Reflog {
		x := r.RunGoit("reflog")
		ents := parseReflog(x.Stdout)
		for _, e := range ents {
			em := e.(M)
			em["full"] = ""
			if id7, _ := em["id7"].(string); len(id7) == 7 {
				n := 0
				for id := range st["objs"].(M) {
					if strings.HasPrefix(id, id7) {
						em["full"] = id
						n++
					}
				}
				if n != 1 {
					em["full"] = ""
				}
			}
		}
		obs["reflog"] = M{"res": x.Res, "ents": ents}
	}
	if spec.Branches {
		x := r.RunGoit("branch", "--list")
		o := r.parseBranchList(x.Stdout)
		o["res"] = x.Res
		obs["branches"] = o
	}
	if spec.RevParse {
		rp := M{}
		x := r.RunGoit("rev-parse", "HEAD")
		rp["HEAD"] = M{"res": x.Res, "out": EscS(strings.TrimSuffix(string(x.Stdout), "\n"))}
		for k := range st["refs"].(M) {
			nm := string(Unesc(k))
			if strings.HasPrefix(nm, "-") || strings.ToLower(nm) == "head" {
				continue
			}
			x := r.RunGoit("rev-parse", nm)
			rp["b:"+k] = M{"res": x.Res, "out": EscS(strings.TrimSuffix(string(x.Stdout), "\n"))}
		}
		obs["revparse"] = rp
	}
	if spec.Log {
		lg := M{}
		ks := spec.LogKs
		if ks == nil {
			ks = []int{-1, 0, 1, 2, 3}
		}
		for _, k := range ks {
			var x ExecResult
			key := "d"
			if k < 0 {
				x = r.RunGoit("log")
			} else {
				x = r.RunGoit("log", "-n", itoa(k))
				key = "k" + itoa(k)
			}
			lg[key] = M{"res": x.Res, "k": k, "ents": parseLogOut(x.Stdout)}
		}
		obs["log"] = lg
	}
	if spec.CatFile {
		cf := M{}
		var prevObjs M
		if prev != nil {
			prevObjs, _ = prev["objs"].(M)
		}
		n := 0
		for id := range st["objs"].(M) {
			if !isHex40(id) {
				continue
			}
			if prevObjs != nil {
				if _, old := prevObjs[id]; old {
					continue
				}
			}
			if n >= 40 {
				break
			}
			n++
			xt := r.RunGoit("cat-file", "-t", id)
			xp := r.RunGoit("cat-file", "-p", id)
			cf[id] = M{"tres": xt.Res, "t": EscS(strings.TrimSuffix(string(xt.Stdout), "\n")), "pres": xp.Res, "p": r.catP(xp.Stdout)}
		}
		obs["catfile"] = cf
	}
	if spec.Hash {
		h := M{}
		var prevWt M
		if prev != nil {
			prevWt, _ = prev["wt"].(M)
		}
		n := 0
		for p, c := range st["wt"].(M) {
			if prevWt != nil && prevWt[p] == c {
				continue
			}
			nm := string(Unesc(p))
			if strings.HasPrefix(nm, "-") || n >= 40 {
				continue
			}
			n++
			x := r.RunGoit("hash-object", nm)
			h[p] = M{"res": x.Res, "out": EscS(strings.TrimSuffix(string(x.Stdout), "\n"))}
		}
		obs["hash"] = h
	}
	return obs
}

// catP records `cat-file -p` output both as a content token (bytes minus the one newline the command adds)
// and, for trees, as parsed lines.
func (r *Runner) catP(out []byte) M {
	body := out
	nl := false
	if len(body) > 0 && body[len(body)-1] == '\n' {
		body = body[:len(body)-1]
		nl = true
	}
	res := M{"c": r.T.Content(body), "nl": nl, "esc": "", "lines": []any{}}
	if len(body) <= 4096 {
		res["esc"] = Esc(body)
	}
	lines := []any{}
	ls := splitLines(body)
	if len(ls) > 0 && !treeLineRe.MatchString(ls[0]) {
		ls = nil // not a tree listing: the bytes are carried by the content token
	}
	for _, ln := range ls {
		if m := treeLineRe.FindStringSubmatch(ln); m != nil {
			lines = append(lines, M{"m": m[1], "k": m[2], "id": m[3], "n": r.T.Name([]byte(m[4]))})
		} else {
			lines = append(lines, M{"m": "", "k": "", "id": "", "n": r.T.Name([]byte(ln))})
		}
	}
	res["lines"] = lines
	return res
}

var treeLineRe = regexp.MustCompile(`^([0-7]{6}) (blob|tree|commit) ([0-9a-f]{40})\t(.*)$`)

func itoa(i int) string {
	if i == 0 {
		return "0"
	}
	neg := i < 0
	if neg {
		i = -i
	}
	s := ""
	for i > 0 {
		s = string(rune('0'+i%10)) + s
		i /= 10
	}
	if neg {
		s = "-" + s
	}
	return s
}
