package main

// Self-test of the binding between recorded traces and the specification: a straight-line scenario is
// recorded from the real binary and judged (no clause may fail); then single recorded fields are corrupted
// and the judge must reject exactly there. A judge that accepted a corrupted trace would be vacuous.

import (
	"encoding/json"
	"fmt"
	"os"
	"path/filepath"
	"strings"
	"time"
)

func deepCopy(v any) any {
	b, _ := json.Marshal(v)
	var out any
	json.Unmarshal(b, &out)
	return normalizeJSON(out)
}

// normalizeJSON turns map[string]interface{} into M and float64 whole numbers into int (as the recorder produces them).
func normalizeJSON(v any) any {
	switch x := v.(type) {
	case map[string]any:
		m := M{}
		for k, e := range x {
			m[k] = normalizeJSON(e)
		}
		return m
	case []any:
		for i := range x {
			x[i] = normalizeJSON(x[i])
		}
		return x
	case float64:
		if x == float64(int(x)) {
			return int(x)
		}
	}
	return v
}

type corruption struct {
	name   string
	expect string // clause that must fail
	apply  func(lines []M) (int, bool)
}

func findStep(lines []M, ev string, nth int) int {
	n := 0
	for i, l := range lines {
		if l["kind"] == "step" && l["ev"] == ev {
			n++
			if n == nth {
				return i
			}
		}
	}
	return -1
}

func runSelfTest() int {
	scratch, _ := os.MkdirTemp(scratchBase(), "vself")
	defer os.RemoveAll(scratch)
	goit, err := buildGoit(scratch, false)
	if err != nil {
		fmt.Fprintln(os.Stderr, err)
		return 2
	}
	sc := &Scenario{Name: "selftest", TZ: 540, Steps: []M{
		{"ev": "init"}, {"ev": "config", "key": "user.name", "value": EscS("Test User")}, {"ev": "config", "key": "user.email", "value": "t@example.com"},
		{"ev": "write", "p": "a.txt", "data": "one\n"}, {"ev": "write", "p": "d/x", "data": "x1"},
		{"ev": "add", "paths": []any{"a.txt", "d"}}, {"ev": "commit", "msg": "first"},
		{"ev": "write", "p": "a.txt", "data": "two\n"}, {"ev": "add", "paths": []any{"a.txt"}}, {"ev": "commit", "msg": "second"},
		{"ev": "branch", "name": "dev"}, {"ev": "switch", "name": "dev"}, {"ev": "reset", "mode": "hard", "arg": EscS("HEAD@{2}")},
		{"ev": "status"},
	}}
	record := func() *Chunk {
		c := NewChunk(filepath.Join(scratch, fmt.Sprintf("j%d", time.Now().UnixNano())))
		base, _ := os.MkdirTemp(scratchBase(), "vselfr")
		defer os.RemoveAll(base)
		tr := runScenario(goit, base, c.T, sc, allObs())
		c.Add(tr, 540)
		return c
	}
	c0 := record()
	jr := c0.Judge("GoitTrace", 10*time.Minute)
	if jr.Err != nil {
		fmt.Fprintln(os.Stderr, "INFRA:", jr.Err)
		return 2
	}
	bad := 0
	if len(jr.Fails) != 0 {
		fmt.Printf("selftest: the uncorrupted trace fails %d clauses (first: %s at line %d)\n", len(jr.Fails), jr.Fails[0].Clause, jr.Fails[0].Line)
		bad++
	} else {
		fmt.Printf("selftest: uncorrupted trace accepted (%d steps, %d clause kinds exercised)\n", jr.Steps, len(jr.Counts))
	}
	post := func(lines []M, stepIdx int) M { return lines[lines[stepIdx]["postl"].(int)-1] }
	cors := []corruption{
		{"staged id of a.txt after the first add replaced", "C04_AddExact", func(lines []M) (int, bool) {
			i := findStep(lines, "add", 1)
			ents := post(lines, i)["st"].(M)["idx"].(M)["ents"].([]any)
			ents[0].(M)["id"] = ents[1].(M)["id"]
			return i, true
		}},
		{"branch not moved by the second commit", "C02_Move", func(lines []M) (int, bool) {
			i := findStep(lines, "commit", 2)
			pre := lines[lines[i]["prel"].(int)-1]["st"].(M)["refs"].(M)["main"]
			post(lines, i)["st"].(M)["refs"].(M)["main"] = pre
			return i, true
		}},
		{"a stored object missing after the second commit", "C01_Immutable", func(lines []M) (int, bool) {
			i := findStep(lines, "commit", 2)
			pre := lines[lines[i]["prel"].(int)-1]["st"].(M)["objs"].(M)
			for id := range pre {
				delete(post(lines, i)["st"].(M)["objs"].(M), id)
				break
			}
			return i, true
		}},
		{"an extra line in status' staged section", "C07_StagedReport", func(lines []M) (int, bool) {
			i := findStep(lines, "add", 2)
			stt := post(lines, i)["obs"].(M)["status"].(M)
			stt["staged"] = append(stt["staged"].([]any), M{"c": "new", "p": "d/x"})
			return i, true
		}},
		{"two reflog entries swapped after switch", "C11_Append", func(lines []M) (int, bool) {
			i := findStep(lines, "switch", 1)
			ents := post(lines, i)["obs"].(M)["reflog"].(M)["ents"].([]any)
			if len(ents) < 3 {
				return i, false
			}
			ents[1], ents[2] = ents[2], ents[1]
			return i, true
		}},
		{"reset --hard result: working file keeps the newer bytes", "C08_Hard", func(lines []M) (int, bool) {
			i := findStep(lines, "reset", 1)
			pre := lines[lines[i]["prel"].(int)-1]["st"].(M)["wt"].(M)["a.txt"]
			post(lines, i)["st"].(M)["wt"].(M)["a.txt"] = pre
			return i, true
		}},
		{"branch --list misses the new branch", "C10_List", func(lines []M) (int, bool) {
			i := findStep(lines, "branch", 1)
			b := post(lines, i)["obs"].(M)["branches"].(M)
			b["names"] = b["names"].([]any)[:1]
			return i, true
		}},
		{"result of a command recorded as crash", "C18_NoCrash", func(lines []M) (int, bool) {
			i := findStep(lines, "status", 1)
			lines[i]["res"] = "crash"
			return i, true
		}},
		{"index entries out of order after the first add", "C06_Canonical", func(lines []M) (int, bool) {
			i := findStep(lines, "add", 1)
			ents := post(lines, i)["st"].(M)["idx"].(M)["ents"].([]any)
			ents[0], ents[1] = ents[1], ents[0]
			return i, true
		}},
		{"the second commit step deleted from the trace", "C02_Parent", func(lines []M) (int, bool) {
			// the next step then starts from a state whose branch already moved: make the third... instead corrupt the parent link expectation
			i := findStep(lines, "commit", 2)
			pre := lines[lines[i]["prel"].(int)-1]["st"].(M)["refs"].(M)
			delete(pre, "main") // as if the branch had not existed: the recorded commit has a parent it should not have
			return i, true
		}},
	}
	for _, co := range cors {
		c := record()
		for i := range c.Lines {
			c.Lines[i] = deepCopy(c.Lines[i]).(M)
		}
		idx, ok := co.apply(c.Lines)
		if !ok || idx < 0 {
			fmt.Printf("selftest: SKIP %s (trace too short)\n", co.name)
			continue
		}
		j := c.Judge("GoitTrace", 10*time.Minute)
		if j.Err != nil {
			fmt.Printf("selftest: INFRA %s: %v\n", co.name, j.Err)
			bad++
			continue
		}
		hit := false
		for _, f := range j.Fails {
			if f.Clause == co.expect {
				hit = true
			}
		}
		if hit {
			fmt.Printf("selftest: ok   corrupted [%s] -> %s fails (%d clause failures in all)\n", co.name, co.expect, len(j.Fails))
		} else {
			fmt.Printf("selftest: MISS corrupted [%s] -> expected %s to fail, got %v\n", co.name, co.expect, j.Fails)
			bad++
		}
	}
	// negative control of the write-protocol model: with the protocol branch -r had before its repair, TLC must find
	// the state in which HEAD names a branch that does not exist
	nc := filepath.Join(scratch, "fsold")
	os.MkdirAll(nc, 0o777)
	if err := linkSpecs(nc); err != nil {
		fmt.Println("selftest: INFRA", err)
		bad++
	} else {
		out, _ := tlcCmd(nc, "3g", "-workers", "4", "-config", "MC_FSOld.cfg", "MC_FSOld.tla").CombinedOutput()
		if strings.Contains(string(out), "Invariant C15_Recoverable is violated") {
			fmt.Println("selftest: ok   MC_FSOld (rename-first protocol of branch -r) -> TLC reports C15_Recoverable violated")
		} else {
			fmt.Println("selftest: MISS MC_FSOld: TLC did not report the rename gap")
			bad++
		}
	}
	if bad > 0 {
		return 1
	}
	fmt.Println("selftest: the judge rejects every corrupted trace at the expected clause")
	return 0
}
