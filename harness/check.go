package main

import (
	"encoding/base64"
	"encoding/hex"
	"encoding/json"
	"fmt"
	"math/rand"
	"os"
	"path/filepath"
	"regexp"
	"runtime"
	"sort"
	"strings"
	"sync"
	"time"
)

// A Job produces traces into a chunk; the chunk is then judged by TLC.
type Job struct {
	Name string
	Make func(goit string, c *Chunk, rng *rand.Rand)
}

type Violation struct {
	Prop     string
	Clause   string
	Trace    *TraceRef
	EvIdx    int
	KF       []string
	Chunk    *Chunk
	Line     int
	Describe string
}

type KnownFindings struct {
	Findings []struct {
		ID        string `json:"id"`
		Property  string `json:"property"`
		Deviation string `json:"deviation"`
		What      string `json:"what"`
		Repro     string `json:"repro"`
	} `json:"findings"`
	Fixed []struct {
		Property string `json:"property"`
		Commit   string `json:"commit"`
		What     string `json:"what"`
	} `json:"fixed"`
}

func loadKnown() *KnownFindings {
	kf := &KnownFindings{}
	b, err := os.ReadFile(filepath.Join(verifDir(), "known_findings.json"))
	if err == nil {
		json.Unmarshal(b, kf)
	}
	return kf
}

type ModelStats struct {
	States, Transitions int
	Module              string
	Wall                float64
}

type CheckCtx struct {
	Prop, Tier string
	Seed       int64
	Scratch    string
	Goit       string
	Known      *KnownFindings
	mu         sync.Mutex
	Viol       []*Violation
	KnownSeen  map[string]int
	Steps      int             // steps judged
	Evals      int             // steps on which a clause of Prop had a true antecedent
	Distinct   map[string]bool // distinct (event, args, pre-state digest)
	Counts     map[string]int
	Traces     int
	Samples    []any
	Models     []ModelStats
	InfraErr   []string
	T0         time.Time
	Extra      M
}

func evSignature(ev M) string {
	if ev["ev"] == "crash" || ev["ev"] == "fault" || ev["ev"] == "damage" || ev["ev"] == "retry" {
		return fmt.Sprintf("%v", ev)
	}
	a, ok := Argv(ev)
	if ok {
		if tz, has := ev["runtz"]; has {
			return strings.Join(a, "\x00") + fmt.Sprintf("\x00tz=%v", tz)
		}
		return strings.Join(a, "\x00")
	}
	return fmt.Sprintf("%v|%v|%v", ev["ev"], ev["p"], ev["c"])
}

func (cx *CheckCtx) runJobs(jobs []Job, mod string) {
	par := runtime.NumCPU()
	if par > 16 {
		par = 16
	}
	sem := make(chan struct{}, par)
	var wg sync.WaitGroup
	for i, j := range jobs {
		wg.Add(1)
		sem <- struct{}{}
		go func(i int, j Job) {
			defer wg.Done()
			defer func() { <-sem }()
			dir := filepath.Join(cx.Scratch, fmt.Sprintf("job%04d", i))
			c := NewChunk(dir)
			rng := rand.New(rand.NewSource(cx.Seed*1000003 + int64(i)*7919 + 17))
			func() {
				defer func() {
					if r := recover(); r != nil {
						cx.mu.Lock()
						cx.InfraErr = append(cx.InfraErr, fmt.Sprintf("job %s panicked: %v", j.Name, r))
						cx.mu.Unlock()
					}
				}()
				j.Make(cx.Goit, c, rng)
			}()
			if len(c.Lines) == 0 {
				return
			}
			want := []string{cx.Prop}
			if cx.Prop == "C16" {
				want = []string{"ALL"}
			}
			jr := c.JudgeWant(mod, 20*time.Minute, want)
			cx.absorb(c, jr, j.Name)
			if jr.Err == nil && len(jr.Fails) == 0 {
				os.RemoveAll(dir)
			} else {
				// keep only what replay confirmation needs; the big files go
				os.Remove(filepath.Join(dir, "trace.ndjson"))
				os.Remove(filepath.Join(dir, "tables.json"))
				os.RemoveAll(filepath.Join(dir, "tlcmeta"))
			}
		}(i, j)
	}
	wg.Wait()
}

func (cx *CheckCtx) absorb(c *Chunk, jr *JudgeResult, name string) {
	cx.mu.Lock()
	defer cx.mu.Unlock()
	if jr.Err != nil {
		cx.InfraErr = append(cx.InfraErr, jr.Err.Error())
		return
	}
	cx.Steps += jr.Steps
	cx.Traces += len(c.Traces)
	for k, v := range jr.Counts {
		cx.Counts[k] += v // with Want = {property} only clauses of this property are evaluated at all
	}
	for line, props := range jr.Hits {
		hit := false
		for _, p := range props {
			if p == cx.Prop {
				hit = true
			}
		}
		if !hit {
			continue
		}
		cx.Evals++
		l := c.Lines[line-1]
		pre := c.Lines[l["prel"].(int)-1]
		tr, idx := c.locate(line)
		if tr != nil {
			cx.Distinct[evSignature(tr.Events[idx])+"|"+pre["st"].(M)["dg"].(string)] = true
		}
	}
	if len(cx.Samples) < 3 && len(c.Traces) > 0 {
		tr := c.Traces[0]
		var cmds []string
		for i, ev := range tr.Events {
			if i >= 12 {
				cmds = append(cmds, "...")
				break
			}
			cmds = append(cmds, describeEv(ev))
		}
		cx.Samples = append(cx.Samples, M{"driver": name, "trace": tr.Label, "events": cmds})
	}
	for _, f := range jr.Fails {
		mine := false
		for _, p := range f.Props {
			clauseNote(f.Clause, p)
			if p == cx.Prop {
				mine = true
			}
		}
		if !mine {
			continue
		}
		tr, idx := c.locate(f.Line)
		v := &Violation{Prop: cx.Prop, Clause: f.Clause, Trace: tr, EvIdx: idx, KF: f.KF, Chunk: c, Line: f.Line}
		if tr != nil {
			v.Describe = describeEv(tr.Events[idx])
		}
		cx.Viol = append(cx.Viol, v)
	}
}

var clauseProps = map[string]map[string]bool{}
var clauseMu sync.Mutex

func clauseNote(clause, prop string) {
	clauseMu.Lock()
	if clauseProps[clause] == nil {
		clauseProps[clause] = map[string]bool{}
	}
	clauseProps[clause][prop] = true
	clauseMu.Unlock()
}

type ReplayFile struct {
	Property string            `json:"property"`
	Clause   string            `json:"clause"`
	TZ0      int               `json:"tz0"`
	Events   []M               `json:"events"`
	Contents map[string]string `json:"contents"`
	Obs      ObsSpec           `json:"obs"`
	Commands []string          `json:"commands"`
	Note     string            `json:"note"`
	Kind     string            `json:"kind"`
	Extra    M                 `json:"extra,omitempty"`
}

func (v *Violation) isFS() bool {
	if v.Trace == nil {
		return false
	}
	e := v.Trace.Events[v.EvIdx]["ev"]
	return e == "crash" || e == "fault" || e == "damage" || e == "retry"
}

// fsSignature identifies a crash point / fault position by what is stable across runs.
func fsSignature(l M) string {
	if l["ev"] == "crash" {
		return fmt.Sprintf("crash|%v/%v>%v/%v", l["last"].(M)["kind"], l["last"].(M)["fclass"], l["next"].(M)["kind"], l["next"].(M)["fclass"])
	}
	if l["ev"] == "retry" {
		return fmt.Sprintf("retry|%v/%v>%v/%v", l["last"].(M)["kind"], l["last"].(M)["fclass"], l["next"].(M)["kind"], l["next"].(M)["fclass"])
	}
	if f, ok := l["fault"].(M); ok {
		return fmt.Sprintf("fault|%v/%v/%v", f["kind"], f["fclass"], f["errno"])
	}
	if t, ok := l["target"].(M); ok {
		return fmt.Sprintf("damage|%v/%v", t["fclass"], t["mutation"])
	}
	return ""
}

// looseSig drops the error number from a fault signature: a fault that landed on another call than the intended one
// may carry an error number that the enumeration does not use for that kind of call, and which error a call fails
// with rarely matters for what the command does about it.
func looseSig(sig string) string {
	if strings.HasPrefix(sig, "fault|") {
		if i := strings.LastIndex(sig, "/"); i > 0 {
			return sig[:i]
		}
	}
	return sig
}

func (v *Violation) replayFileFS() *ReplayFile {
	rf := &ReplayFile{Property: v.Prop, Clause: v.Clause, TZ0: v.Trace.TZ0, Obs: roObs, Contents: map[string]string{}, Kind: "fs"}
	fe := v.Trace.Events[v.EvIdx]
	if fe["ev"] == "damage" {
		snap := M{}
		for k, b := range v.Trace.Snapshot {
			snap[k] = base64.StdEncoding.EncodeToString(b)
		}
		l := v.Chunk.Lines[v.Line-1]
		rf.Extra = M{"mode": "damage", "mutation": fe, "snapshot": snap, "signature": fsSignature(l), "results": l["results"]}
		rf.Note = fmt.Sprintf("in the repository of the snapshot, %v of %v at offset %v (new bytes in mutation.hex): clause %s fails; results per command are in extra.results", fe["kind"], fe["rel"], fe["off"], v.Clause)
		return rf
	}
	at := toInt(fe["at"])
	n := -1
	for _, ev := range v.Trace.Events {
		if ev["ev"] == "crash" || ev["ev"] == "fault" || ev["ev"] == "retry" {
			continue
		}
		n++
		if n > at {
			break
		}
		rf.Events = append(rf.Events, ev)
		rf.Commands = append(rf.Commands, describeEv(ev))
		if c, ok := ev["c"].(string); ok {
			if b, ok := v.Trace.Contents[c]; ok {
				rf.Contents[c] = base64.StdEncoding.EncodeToString(b)
			}
		}
	}
	l := v.Chunk.Lines[v.Line-1]
	rf.Extra = M{"mode": fe["ev"], "signature": fsSignature(l), "position": fe}
	if fe["ev"] == "retry" {
		rf.Extra["mode"] = "crash"
		rf.Note = fmt.Sprintf("kill the last command after its %v-th file-system modification (last op %v %v, next op %v %v), then give the same command again: clause %s fails on the state after the second run", fe["k"], l["last"].(M)["kind"], l["last"].(M)["name"], l["next"].(M)["kind"], l["next"].(M)["name"], v.Clause)
	} else if fe["ev"] == "crash" {
		rf.Note = fmt.Sprintf("kill the last command after its %v-th file-system modification (last op %v %v, next op %v %v): clause %s fails on the resulting state", fe["k"], l["last"].(M)["kind"], l["last"].(M)["name"], l["next"].(M)["kind"], l["next"].(M)["name"], v.Clause)
	} else {
		rf.Note = fmt.Sprintf("make %v #%v (%v) of the last command fail with %v: clause %s fails", fe["sys"], fe["ord"], fe["path"], fe["errno"], v.Clause)
	}
	return rf
}

// reexecFS re-enumerates the positions of the last command of a replay file and reports whether the clause fails
// again at a position with the same signature.
func reexecFS(goit string, rf *ReplayFile, dir string) (bool, error) {
	c := NewChunk(dir)
	if rf.Extra["mode"] == "damage" {
		snap := map[string][]byte{}
		for k, v := range rf.Extra["snapshot"].(M) {
			b, _ := base64.StdEncoding.DecodeString(v.(string))
			snap[k] = b
		}
		mu := rf.Extra["mutation"].(M)
		data, _ := hex.DecodeString(fmt.Sprint(mu["hex"]))
		str := func(k string) string {
			if s, ok := mu[k].(string); ok {
				return s
			}
			return ""
		}
		m := mutation{rel: str("rel"), kind: str("kind"), off: toInt(mu["off"]), val: toInt(mu["val"]), data: data, rel2: str("rel2"), class: str("class"), class2: str("class2"), mi: toInt(mu["mi"])}
		gd, _ := os.MkdirTemp(scratchBase(), "vdg")
		defer os.RemoveAll(gd)
		materializeFiles(snap, gd)
		gr := runnerAt(goit, gd, c.T, rf.TZ0)
		good := c.T.Project(gr.Root, gr.Home)
		c.Lines = append(c.Lines, M{"kind": "state", "st": good, "obs": gr.Observe(roObs, good, nil), "trace": "replay"})
		st := &dmgStats{ByClass: map[string]int{}, ByKind: map[string]int{}}
		sl, results := damageCase(goit, c, snap, rf.TZ0, good, 1, m, "replay", st)
		fmt.Fprintln(os.Stderr, "   results on the damaged repository:", results)
		jr := c.Judge("GoitTrace", 10*time.Minute)
		if jr.Err != nil {
			return false, jr.Err
		}
		for _, f := range jr.Fails {
			if f.Clause == rf.Clause && f.Line == sl {
				return true, nil
			}
		}
		return false, nil
	}
	contents := map[string][]byte{}
	for k, v := range rf.Contents {
		b, _ := base64.StdEncoding.DecodeString(v)
		contents[k] = b
	}
	mode := FSMode{Crash: rf.Extra["mode"] == "crash", Fault: rf.Extra["mode"] == "fault", Errnos: thoroughErrnos, OnlyAt: len(rf.Events)}
	st := &fsStats{ByCmd: map[string]int{}}
	var infra []string
	fsEnumerate(goit, c, rf.Events, contents, rf.TZ0, mode, rand.New(rand.NewSource(1)), "replay", st, &infra)
	if len(infra) > 0 {
		return false, fmt.Errorf("%s", strings.Join(infra, "; "))
	}
	jr := c.Judge("GoitTrace", 10*time.Minute)
	if jr.Err != nil {
		return false, jr.Err
	}
	for _, f := range jr.Fails {
		if f.Clause == rf.Clause && looseSig(fsSignature(c.Lines[f.Line-1])) == looseSig(fmt.Sprint(rf.Extra["signature"])) {
			return true, nil
		}
	}
	return false, nil
}

func (v *Violation) replayFile() *ReplayFile {
	rf := &ReplayFile{Property: v.Prop, Clause: v.Clause, TZ0: v.Trace.TZ0, Obs: v.Trace.ObsSpec, Contents: map[string]string{}, Kind: "functional"}
	rf.Events = v.Trace.Events[:v.EvIdx+1]
	for _, ev := range rf.Events {
		rf.Commands = append(rf.Commands, describeEv(ev))
		if c, ok := ev["c"].(string); ok {
			if b, ok := v.Trace.Contents[c]; ok {
				rf.Contents[c] = base64.StdEncoding.EncodeToString(b)
			}
		}
	}
	rf.Note = fmt.Sprintf("clause %s failed on the last command; re-execute with: verif replay <this file>", v.Clause)
	return rf
}

// reexec runs a replay file against the binary and judges the last step; returns whether the clause fails again.
func reexec(goit string, rf *ReplayFile, dir string) (bool, []JFail, error) {
	c := NewChunk(dir)
	base, err := os.MkdirTemp(scratchBase(), "vrep")
	if err != nil {
		return false, nil, err
	}
	defer os.RemoveAll(base)
	r := NewRunner(goit, base, c.T)
	r.TZ = rf.TZ0
	tr := NewTrace(r, rf.Obs, "replay")
	for k, v := range rf.Contents {
		b, _ := base64.StdEncoding.DecodeString(v)
		tr.Contents[k] = b
		c.T.Content(b)
	}
	for _, ev0 := range rf.Events {
		ev := cloneEv(ev0)
		if _, ok := ev["idref"]; ok {
			delete(ev, "id")
			resolveIds(c.T, tr.Cur, ev)
		}
		annotate(c.T, ev)
		tr.Step(ev)
	}
	c.Add(tr, rf.TZ0)
	jr := c.JudgeWant("GoitTrace", 10*time.Minute, []string{rf.Property})
	if k := os.Getenv("VERIF_KEEP"); k != "" {
		os.MkdirAll(k, 0o777)
		os.RemoveAll(filepath.Join(k, "repo"))
		copyTree(base, filepath.Join(k, "repo"))
		writeNdjson(filepath.Join(k, "trace.ndjson"), c.Lines)
		writeJson(filepath.Join(k, "tables.json"), c.T.Dump())
	}
	if jr.Err != nil {
		return false, nil, jr.Err
	}
	last := c.Traces[0].StepLine[len(c.Traces[0].StepLine)-1]
	again := false
	for _, f := range jr.Fails {
		if f.Line == last && f.Clause == rf.Clause {
			again = true
		}
	}
	return again, jr.Fails, nil
}

func runReplay(path string) int {
	b, err := os.ReadFile(path)
	if err != nil {
		fmt.Fprintln(os.Stderr, err)
		return 2
	}
	var rf ReplayFile
	if err := json.Unmarshal(b, &rf); err != nil {
		fmt.Fprintln(os.Stderr, err)
		return 2
	}
	if rf.Kind == "fs" {
		return runReplayFS(&rf)
	}
	scratch, _ := os.MkdirTemp(scratchBase(), "vreplay")
	defer os.RemoveAll(scratch)
	goit, err := buildGoit(scratch, false)
	if err != nil {
		fmt.Fprintln(os.Stderr, err)
		return 2
	}
	for _, c := range rf.Commands {
		fmt.Println("  ", c)
	}
	again, fails, err := reexec(goit, &rf, filepath.Join(scratch, "judge"))
	if err != nil {
		fmt.Fprintln(os.Stderr, err)
		return 2
	}
	if again {
		fmt.Printf("REPRODUCED property=%s clause=%s on the last command\n", rf.Property, rf.Clause)
		return 1
	}
	fmt.Printf("not reproduced (clause %s holds on the last command); other failures: %d\n", rf.Clause, len(fails))
	return 0
}

func (cx *CheckCtx) finish(level string, rule string, assumptions []string) int {
	// classify
	enabled := map[string]string{}
	for _, f := range cx.Known.Findings {
		if f.Property == cx.Prop {
			enabled[f.Deviation] = f.ID + " " + f.What
		}
	}
	var unexplained []*Violation
	for _, v := range cx.Viol {
		expl := ""
		for _, d := range v.KF {
			if w, ok := enabled[d]; ok {
				expl = w
			}
		}
		if expl != "" {
			cx.KnownSeen[expl]++
		} else {
			unexplained = append(unexplained, v)
		}
	}
	if os.Getenv("VERIF_DEBUG") != "" {
		cnt := map[string]int{}
		ex := map[string]string{}
		for _, v := range cx.Viol {
			k := v.Clause + " kf=" + strings.Join(v.KF, ",")
			if v.Trace != nil {
				ev := v.Trace.Events[v.EvIdx]
				k += " ev=" + fmt.Sprint(ev["ev"])
				if ev["ev"] == "crash" || ev["ev"] == "fault" || ev["ev"] == "retry" {
					l := v.Chunk.Lines[v.Line-1]
					if ev["ev"] == "crash" || ev["ev"] == "retry" {
						k += fmt.Sprintf(" cmd=%v last=%v/%v next=%v/%v", l["cmd"].(M)["ev"], l["last"].(M)["kind"], l["last"].(M)["fclass"], l["next"].(M)["kind"], l["next"].(M)["fclass"])
					} else {
						k += fmt.Sprintf(" cmd=%v fault=%v/%v/%v res=%v", l["ev"], l["fault"].(M)["kind"], l["fault"].(M)["fclass"], l["fault"].(M)["errno"], l["res"])
					}
				}
			}
			cnt[k]++
			if ex[k] == "" {
				ex[k] = v.Describe
			}
		}
		var ks []string
		for k := range cnt {
			ks = append(ks, k)
		}
		sort.Strings(ks)
		for _, k := range ks {
			fmt.Fprintf(os.Stderr, "DEBUG %5d  %s   e.g. %s\n", cnt[k], k, ex[k])
		}
	}
	// group unexplained by (clause, event kind), confirm a few of each by re-execution
	groups := map[string][]*Violation{}
	var gkeys []string
	for _, v := range unexplained {
		k := v.Clause
		if v.isFS() {
			l := v.Chunk.Lines[v.Line-1]
			cmd := l["ev"]
			if m, ok := l["cmd"].(M); ok {
				cmd = m["ev"]
			}
			k += "|" + fmt.Sprint(cmd) + "|" + fsSignature(l)
		} else if v.Trace != nil {
			k += "|" + fmt.Sprint(v.Trace.Events[v.EvIdx]["ev"])
		}
		if _, ok := groups[k]; !ok {
			gkeys = append(gkeys, k)
		}
		groups[k] = append(groups[k], v)
	}
	sort.Strings(gkeys)
	evdir := filepath.Join(evidenceDir(), "replays")
	os.MkdirAll(evdir, 0o777)
	confirmed := 0
	unrepro := 0
	var vlines []string
	perClause := map[string]int{}
	var cmu sync.Mutex
	var cwg sync.WaitGroup
	csem := make(chan struct{}, 12)
	for gi, k := range gkeys {
		vs := groups[k]
		clause := strings.SplitN(k, "|", 2)[0]
		perClause[clause]++
		if perClause[clause] > 4 && !vs[0].isFS() {
			continue // same clause already being confirmed on four other kinds of command
		}
		sort.Slice(vs, func(i, j int) bool { return vs[i].EvIdx < vs[j].EvIdx })
		cwg.Add(1)
		csem <- struct{}{}
		go func(gi int, k string, vs []*Violation) {
			defer cwg.Done()
			defer func() { <-csem }()
			for try := 0; try < 2*len(vs) && try < 8; try++ {
				v := vs[try/2] // each candidate twice: commit ids embed the second of the run, so a replay can differ
				if v.Trace == nil {
					continue
				}
				var rf *ReplayFile
				var again bool
				var err error
				if v.isFS() {
					rf = v.replayFileFS()
					again, err = reexecFS(cx.Goit, rf, filepath.Join(cx.Scratch, fmt.Sprintf("confirm%d_%d", gi, try)))
				} else {
					rf = v.replayFile()
					again, _, err = reexec(cx.Goit, rf, filepath.Join(cx.Scratch, fmt.Sprintf("confirm%d_%d", gi, try)))
				}
				cmu.Lock()
				if err != nil {
					cx.InfraErr = append(cx.InfraErr, "replay: "+err.Error())
					cmu.Unlock()
					continue
				}
				if !again {
					unrepro++
					if d := os.Getenv("VERIF_KEEP_UNREPRO"); d != "" {
						b, _ := json.MarshalIndent(rf, "", " ")
						os.WriteFile(filepath.Join(d, fmt.Sprintf("unrepro_%s_%d.json", sanitize(k), try)), b, 0o666)
					}
					cmu.Unlock()
					continue
				}
				path := filepath.Join(evdir, fmt.Sprintf("%s_%s_%s_%d.json", cx.Prop, cx.Tier, sanitize(k), cx.Seed))
				b, _ := json.MarshalIndent(rf, "", " ")
				os.WriteFile(path, b, 0o666)
				vlines = append(vlines, fmt.Sprintf("VIOLATION property=%s replay=%s", cx.Prop, path))
				fmt.Fprintf(os.Stderr, "  clause %s failed after: %s   (%d occurrences in this run)\n", v.Clause, v.Describe, len(vs))
				confirmed++
				cmu.Unlock()
				return
			}
		}(gi, k, vs)
	}
	cwg.Wait()
	sort.Strings(vlines)
	var kseen []string
	for w, n := range cx.KnownSeen {
		kseen = append(kseen, w)
		fmt.Printf("KNOWN-FINDING: property=%s %s (seen %d times)\n", cx.Prop, w, n)
	}
	sort.Strings(kseen)
	for _, l := range vlines {
		fmt.Println(l)
	}
	exit := 0
	if confirmed > 0 {
		exit = 1
	} else if len(cx.InfraErr) > 0 || (unrepro > 0 && confirmed == 0 && len(unexplained) > 0) {
		exit = 2
	}
	if cx.Steps == 0 && cx.Extra["fs_cases"] == nil {
		cx.InfraErr = append(cx.InfraErr, "no steps were judged")
		exit = 2
	}
	for _, e := range cx.InfraErr {
		fmt.Fprintln(os.Stderr, "INFRA:", e)
	}
	// evidence
	cov := M{
		"evaluations":                   cx.Evals,
		"distinct_nontrivial":           len(cx.Distinct),
		"rule":                          rule,
		"samples":                       cx.Samples,
		"traces_validated_against_impl": cx.Traces,
		"steps_judged":                  cx.Steps,
		"clause_hits":                   cx.Counts,
		"known_findings_seen":           kseen,
		"unreproduced":                  unrepro,
	}
	// anti-vacuity: clauses of this property (read from the specification text) whose antecedent never held in this run
	if all := clausesOfProperty(cx.Prop); len(all) > 0 {
		var never []string
		for _, n := range all {
			if cx.Counts[n] == 0 {
				never = append(never, n)
			}
		}
		sort.Strings(never)
		cov["clauses_of_property"] = len(all)
		cov["clauses_never_exercised"] = never
	}
	st, trn := 0, 0
	var models []any
	for _, m := range cx.Models {
		st += m.States
		trn += m.Transitions
		models = append(models, M{"module": m.Module, "states": m.States, "transitions": m.Transitions, "wall_s": m.Wall})
	}
	if len(models) > 0 {
		cov["states"] = st
		cov["transitions"] = trn
		cov["models"] = models
	}
	for k, v := range cx.Extra {
		cov[k] = v
	}
	if len(cx.Samples) == 0 {
		cov["samples"] = []any{"none"}
	}
	tier := cx.Tier
	ev := M{
		"property_id": cx.Prop, "tier": tier, "seed": cx.Seed, "level": level, "coverage": cov,
		"assumptions": assumptions, "wall_s": time.Since(cx.T0).Seconds(), "violations": confirmed,
	}
	b, _ := json.MarshalIndent(ev, "", " ")
	os.MkdirAll(evidenceDir(), 0o777)
	os.WriteFile(filepath.Join(evidenceDir(), cx.Prop+".json"), b, 0o666)
	fmt.Printf("%s %s: steps=%d evaluations=%d distinct=%d traces=%d violations=%d known=%d wall=%.1fs exit=%d\n",
		cx.Prop, cx.Tier, cx.Steps, cx.Evals, len(cx.Distinct), cx.Traces, confirmed, len(kseen), time.Since(cx.T0).Seconds(), exit)
	return exit
}

var clauseDeclRe = regexp.MustCompile(`Cl\("([A-Za-z0-9_]+)", \{([^}]*)\}`)

// clausesOfProperty reads the clause declarations Cl("name", {props}, ...) from the specification.
func clausesOfProperty(prop string) []string {
	var out []string
	for _, f := range []string{"GoitProps.tla", "GoitFSProps.tla"} {
		b, err := os.ReadFile(filepath.Join(specDir(), f))
		if err != nil {
			continue
		}
		for _, m := range clauseDeclRe.FindAllStringSubmatch(string(b), -1) {
			if strings.Contains(m[2], `"`+prop+`"`) {
				out = append(out, m[1])
			}
		}
	}
	return out
}

func sanitize(s string) string {
	var b strings.Builder
	for _, c := range s {
		if c >= 'a' && c <= 'z' || c >= 'A' && c <= 'Z' || c >= '0' && c <= '9' || c == '_' {
			b.WriteRune(c)
		} else {
			b.WriteByte('-')
		}
	}
	return b.String()
}

func runCheck(id, tier string) int {
	if tier != "quick" && tier != "thorough" {
		fmt.Fprintln(os.Stderr, "tier must be quick or thorough")
		return 2
	}
	scratch, err := os.MkdirTemp(scratchBase(), "vchk_"+id+"_")
	if err != nil {
		fmt.Fprintln(os.Stderr, err)
		return 2
	}
	defer os.RemoveAll(scratch)
	cx := &CheckCtx{Prop: id, Tier: tier, Seed: seed(), Scratch: scratch, Known: loadKnown(), KnownSeen: map[string]int{},
		Distinct: map[string]bool{}, Counts: map[string]int{}, T0: time.Now(), Extra: M{}}
	goit, err := buildGoit(scratch, false)
	if err != nil {
		fmt.Fprintln(os.Stderr, "INFRA:", err)
		return 2
	}
	cx.Goit = goit
	plan, ok := plans[id]
	if !ok {
		fmt.Fprintln(os.Stderr, "no plan for property", id)
		return 2
	}
	return plan(cx)
}

// evidenceDir is /verif/evidence; a run against another tree than /repo (VERIF_REPO, used to try seeded changes) writes
// its evidence and replay files elsewhere, so that the committed evidence always describes /repo itself.
func evidenceDir() string {
	if alt := os.Getenv("VERIF_REPO"); alt != "" && alt != "/repo" {
		if os.Getenv("VP_RUN_REPO") == alt {
			return filepath.Join(verifDir(), "evidence") // a snapshot of /repo made by the run helper
		}
		return filepath.Join(scratchBase(), "verif_evidence_alt")
	}
	return filepath.Join(verifDir(), "evidence")
}
