package main

// C15 (crash points) and C16 (single I/O faults): enumeration over the file-system operations
// of real runs recorded with strace.  Verdicts are computed by the TLC judge (GoitFSProps clauses)
// on the projected crash / fault states.

import (
	"encoding/json"
	"fmt"
	"math/rand"
	"os"
	"path/filepath"
	"regexp"
	"sort"
	"strings"
)

var roObs = ObsSpec{Status: true, Ls: true, Reflog: true, Branches: true, RevParse: true, Log: true, LogKs: []int{-1}}

var modifyingEvs = map[string]bool{"init": true, "add": true, "rm": true, "commit": true, "branch": true, "branchd": true, "branchr": true,
	"switch": true, "switchc": true, "reset": true, "restore": true, "restores": true, "updateref": true, "config": true}

type FSMode struct {
	Crash, Fault bool
	MaxPerCmd    int // cap on enumerated positions per command (0 = all)
	Errnos       map[string][]string
	KillSample   int // percent of crash points cross-checked by really killing the process
	OnlyAt       int // when > 0: enumerate only for the event with this index+1 (replay)
}

func opInfo(base string, o *FSOp) M {
	if o == nil {
		return M{"kind": "none", "fclass": "none", "name": "", "sys": ""}
	}
	return M{"kind": o.Kind, "fclass": fileClass(base, o.Path), "name": EscS(strings.TrimPrefix(o.Path, base+"/")), "sys": o.Syscall}
}

// snapshot copies the runner's scratch tree (root + home + tz files) to a fresh directory.
func snapshot(r *Runner) (string, error) {
	d, err := os.MkdirTemp(scratchBase(), "vsnap")
	if err != nil {
		return "", err
	}
	return d, copyTree(r.Base, d)
}

func runnerAt(goit, base string, T *Tables, tz int) *Runner {
	r := &Runner{Goit: goit, Base: base, Root: filepath.Join(base, "root"), Home: filepath.Join(base, "home"), T: T, Timeout: 30e9, TZ: tz}
	return r
}

// abstractOps maps the recorded modifying operations of one run to the operation kinds of spec/GoitFS.tla.
func abstractOps(base string, ops []FSOp) []any {
	out := []any{}
	rel := func(p string) string { return strings.TrimPrefix(p, base+"/root/") }
	for i := range ops {
		o := &ops[i]
		if !o.Modifying() {
			continue
		}
		r := rel(o.Path)
		cl := fileClass(base, o.Path)
		switch {
		case strings.HasPrefix(r, ".goit.tmp"):
			if o.Kind == "rename" {
				out = append(out, "install")
			} else {
				out = append(out, "initdir")
			}
		case strings.HasPrefix(r, ".goit/tmp-") && o.Kind != "rename", strings.HasPrefix(strings.TrimPrefix(o.Path, base+"/home/"), "tmp-") && o.Kind != "rename":
			// temporary file being created / written: no visible effect
		case o.Kind == "rename":
			to := fileClass(base, o.Path2)
			switch {
			case cl == "branch" && to == "branch":
				out = append(out, "renref")
			case to == "object":
				out = append(out, "putobj")
			case to == "branch":
				out = append(out, "setref")
			case to == "HEAD":
				out = append(out, "sethead")
			case to == "index":
				out = append(out, "setidx")
			case to == "config" || to == "gconfig":
				out = append(out, "cfg")
			default:
				out = append(out, "other")
			}
		case o.Kind == "mkdir" && (cl == "objdir" || cl == "metadir"):
			// fan-out and log directories: no visible effect
		case cl == "hlog" || cl == "blog":
			if o.Kind == "unlink" {
				out = append(out, "dellog")
			} else {
				out = append(out, "log")
			}
		case cl == "branch" && o.Kind == "unlink":
			out = append(out, "delref")
		case cl == "config" || cl == "gconfig":
			out = append(out, "cfg")
		case cl == "wtfile":
			out = append(out, "wt")
		default:
			out = append(out, "other:"+o.Kind+":"+cl)
		}
	}
	return out
}

type fsStats struct {
	Protocol                                                                                                         []M // recorded runs abstracted for the protocol-conformance check (GoitFSTrace)
	CrashPoints, FaultPoints, Unreached, KillChecked, KillMismatch, Commands, Drift, Retries, Moved, Retried, ByPath int
	ByCmd                                                                                                            map[string]int
	Samples                                                                                                          []any
}

// fsEnumerate executes the events of one corpus trace; for every modifying goit command it enumerates
// crash points and/or fault positions. Lines are appended to the chunk.
func fsEnumerate(goit string, c *Chunk, evs []M, contents map[string][]byte, tz int, mode FSMode, rng *rand.Rand, label string, stats *fsStats, infra *[]string) {
	base, err := os.MkdirTemp(scratchBase(), "vfs")
	if err != nil {
		panic(err)
	}
	defer os.RemoveAll(base)
	r := NewRunner(goit, base, c.T)
	r.TZ = tz
	tr := NewTrace(r, roObs, label)
	for k, v := range contents {
		tr.Contents[k] = v
	}
	ref := &TraceRef{Label: label, First: len(c.Lines) + 1, Contents: tr.Contents, TZ0: tz, ObsSpec: roObs}
	emit := func(l M) int {
		c.Lines = append(c.Lines, l)
		return len(c.Lines)
	}
	// initial state line
	preLine := emit(tr.Lines[0])
	tr.Lines = nil
	for ei, ev0 := range evs {
		ev := cloneEv(ev0)
		materialise(tr, ev)
		if _, ok := ev["idref"]; ok {
			resolveIds(c.T, tr.Cur, ev)
		}
		annotate(c.T, ev)
		name, _ := ev["ev"].(string)
		argv, isCmd := Argv(ev)
		if !isCmd || !modifyingEvs[name] || (mode.OnlyAt > 0 && ei != mode.OnlyAt-1) {
			tr.Step(ev)
			for _, l := range tr.Lines {
				if l["kind"] == "state" {
					preLine = emit(l)
				}
			}
			tr.Lines = nil
			tr.CurLine = preLine
			ref.Events = append(ref.Events, ev)
			ref.StepLine = append(ref.StepLine, 0)
			continue
		}
		// modifying command: snapshot, record, enumerate
		stats.Commands++
		_ = tr.Cur
		preDir, err := snapshot(r)
		if err != nil {
			*infra = append(*infra, err.Error())
			return
		}
		logPath := filepath.Join(base, "strace.log")
		x, ops, perr := r.RecordRun(append([]string{goit}, argv...), "", logPath)
		os.Remove(logPath)
		if perr != nil {
			*infra = append(*infra, perr.Error())
			os.RemoveAll(preDir)
			return
		}
		post := c.T.Project(r.Root, r.Home)
		postObs := r.Observe(roObs, post, nil)
		finLine := emit(M{"kind": "state", "st": post, "obs": postObs, "trace": label})
		ref.Events = append(ref.Events, ev)
		ref.StepLine = append(ref.StepLine, 0)
		var mods []int
		var inrepo []int
		for i := range ops {
			if ops[i].Modifying() {
				mods = append(mods, i)
			}
			if ops[i].InRepo && ops[i].Kind != "close" && ops[i].Kind != "other" {
				inrepo = append(inrepo, i)
			}
		}
		// self-check of the recording: replaying all modifications must give the real post-state
		{
			chk, _ := os.MkdirTemp(scratchBase(), "vchk")
			copyTree(preDir, chk)
			aerr := applyOps(ops, base, chk)
			cs := c.T.Project(filepath.Join(chk, "root"), filepath.Join(chk, "home"))
			os.RemoveAll(chk)
			if aerr != nil || cs["dg"] != post["dg"] {
				stats.Drift++
				*infra = append(*infra, fmt.Sprintf("recording self-check failed for %s (%v): replayed operations do not reproduce the post-state", describeEv(ev), aerr))
				os.RemoveAll(preDir)
				tr.Cur, tr.CurLine = post, finLine
				preLine = finLine
				continue
			}
		}
		if x.Res == "ok" {
			stats.Protocol = append(stats.Protocol, M{"cmd": name, "ops": abstractOps(base, ops), "line": describeEv(ev)})
		}
		cmdEv := cloneEv(ev)
		av := []any{}
		for _, a := range argv {
			av = append(av, EscS(a))
		}
		if mode.Crash {
			for k := 1; k < len(mods); k++ { // k ops applied; k=0 is R, k=len is R+
				if mode.MaxPerCmd > 0 && len(mods) > mode.MaxPerCmd && rng.Intn(len(mods)) >= mode.MaxPerCmd {
					continue
				}
				cd, _ := os.MkdirTemp(scratchBase(), "vcr")
				copyTree(preDir, cd)
				sub := make([]FSOp, 0, k)
				for _, mi := range mods[:k] {
					sub = append(sub, ops[mi])
				}
				if err := applyOps(sub, base, cd); err != nil {
					*infra = append(*infra, err.Error())
					os.RemoveAll(cd)
					continue
				}
				cr := runnerAt(goit, cd, c.T, r.TZ)
				st := c.T.Project(cr.Root, cr.Home)
				obs := cr.Observe(roObs, st, nil)
				kl := emit(M{"kind": "state", "st": st, "obs": obs, "trace": label})
				last, next := &ops[mods[k-1]], &ops[mods[k]]
				step := M{"kind": "step", "cls": "fs", "ev": "crash", "cmd": cmdEv, "argv": av, "prel": preLine, "postl": kl, "finl": finLine,
					"k": k, "nops": len(mods), "last": opInfo(base, last), "next": opInfo(base, next), "res": "crashpoint", "trace": label, "cmdres": x.Res}
				sl := emit(step)
				ref.Events = append(ref.Events, M{"ev": "crash", "at": ei, "k": k})
				ref.StepLine = append(ref.StepLine, sl)
				stats.CrashPoints++
				stats.ByCmd[name]++
				if len(stats.Samples) < 4 {
					stats.Samples = append(stats.Samples, M{"command": describeEv(ev), "crash_after_op": k, "of": len(mods), "last_op": last.Kind + " " + fileClass(base, last.Path), "next_op": next.Kind + " " + fileClass(base, next.Path)})
				}
				// the command is given again on the crash state (what a user does after an interruption)
				{
					rx := cr.RunGoit(argv...)
					rs := c.T.Project(cr.Root, cr.Home)
					robs := cr.Observe(roObs, rs, nil)
					rl := emit(M{"kind": "state", "st": rs, "obs": robs, "trace": label})
					rstep := M{"kind": "step", "cls": "fs", "ev": "retry", "cmd": cmdEv, "argv": av, "prel": kl, "postl": rl,
						"k": k, "nops": len(mods), "last": opInfo(base, last), "next": opInfo(base, next), "res": rx.Res, "exit": rx.Exit, "trace": label, "cmdres": x.Res}
					rsl := emit(rstep)
					ref.Events = append(ref.Events, M{"ev": "retry", "at": ei, "k": k})
					ref.StepLine = append(ref.StepLine, rsl)
					stats.Retries++
				}
				// cross-check on a sample: really kill the process at the next operation
				if mode.KillSample > 0 && rng.Intn(100) < mode.KillSample && next.Syscall != "" {
					kd, _ := os.MkdirTemp(scratchBase(), "vkill")
					copyTree(preDir, kd)
					kr := runnerAt(goit, kd, c.T, r.TZ)
					klog := filepath.Join(kd, "strace.log")
					kargv := make([]string, len(argv))
					copy(kargv, argv)
					_, kops, _ := kr.RecordRun(append([]string{goit}, kargv...), fmt.Sprintf("%s:signal=SIGKILL:when=%d", next.Syscall, next.Ord), klog)
					os.Remove(klog)
					hit := false
					kmods := 0
					for i := range kops {
						// (literal paths: a position on a temporary file cannot be identified across runs - its name differs, and
						// the per-thread ordinal alone may denote another write of the same kind - so it is not cross-checked.
						// A command that writes one file twice (branch -r and logs/HEAD) can have the ordinal land on the other
						// write of that file when the goroutine ran on other threads, so the position in the sequence of
						// modifications has to agree as well)
						if kops[i].Syscall == next.Syscall && kops[i].Ord == next.Ord && strings.TrimPrefix(kops[i].Path, kd) == strings.TrimPrefix(next.Path, base) && kmods == k {
							hit = true
						}
						if kops[i].Modifying() {
							kmods++
						}
					}
					if hit {
						ks := c.T.Project(kr.Root, kr.Home)
						stats.KillChecked++
						if !sameModuloTmpNames(ks, st, name == "commit") {
							stats.KillMismatch++
							if os.Getenv("VERIF_DEBUG") != "" {
								fmt.Fprintf(os.Stderr, "DEBUG killmismatch cmd=%s k=%d next=%s %s ord=%d\n   killed meta=%v refs=%v head=%v\n   mater. meta=%v refs=%v head=%v\n", describeEv(ev), k, next.Kind, strings.TrimPrefix(next.Path, base), next.Ord, ks["meta"], ks["refs"], ks["head"].(M)["raw"], st["meta"], st["refs"], st["head"].(M)["raw"])
							}
						}
					}
					os.RemoveAll(kd)
				}
				os.RemoveAll(cd)
			}
		}
		if mode.Fault {
			for _, oi := range inrepo {
				o := &ops[oi]
				if o.Failed {
					continue // the fault-free run already sees an error here (e.g. ENOENT probe)
				}
				if mode.MaxPerCmd > 0 && len(inrepo) > mode.MaxPerCmd && rng.Intn(len(inrepo)) >= mode.MaxPerCmd {
					continue
				}
				for _, errno := range mode.Errnos[o.Kind] {
					cur := o // the call that fails in this run (the intended one, or the one the fault really landed on)
					var fd string
					var fr *Runner
					var fx ExecResult
					var fops []FSOp
					hit := false
					runOnce := func(inject string, paths []string) {
						if fd != "" {
							os.RemoveAll(fd)
							stats.Retried++
						}
						cur = o
						fd, _ = os.MkdirTemp(scratchBase(), "vflt")
						copyTree(preDir, fd)
						fr = runnerAt(goit, fd, c.T, r.TZ)
						flog := filepath.Join(fd, "strace.log")
						var pp []string
						for _, p := range paths {
							abs := fd + strings.TrimPrefix(p, base)
							pp = append(pp, abs)
							if rel, err := filepath.Rel(fr.Root, abs); err == nil {
								pp = append(pp, rel)
							}
						}
						fx, fops, _ = fr.RecordRunPath(append([]string{goit}, argv...), inject, flog, pp)
						os.Remove(flog)
					}
					// strace counts the calls of when= per thread, and which thread the main goroutine runs on is decided anew in
					// every run. For a file with a stable name (also the target of a rename) only the calls on that file are
					// traced, so that when= counts those alone: the few of them are made in a row, on whichever thread it is.
					// The ordinal among all recorded calls on the file is tried first, then the one on the recording's thread.
					filt := ""
					if !strings.Contains(o.Path, "/tmp-") {
						filt = o.Path
					} else if o.Kind == "rename" && o.Path2 != "" && !strings.Contains(o.Path2, "/tmp-") {
						filt = o.Path2
					}
					if filt != "" {
						nthAll, nthTid := 0, 0
						for j := 0; j <= oi; j++ {
							if ops[j].Syscall == o.Syscall && (ops[j].Path == filt || ops[j].Path2 == filt) {
								nthAll++
								if ops[j].Tid == o.Tid {
									nthTid++
								}
							}
						}
						for _, nth := range []int{nthAll, nthTid} {
							if hit || nth == 0 {
								break
							}
							runOnce(fmt.Sprintf("%s:error=%s:when=%d", o.Syscall, errno, nth), []string{filt})
							nInj := 0
							for i := range fops {
								if fops[i].Injected {
									nInj++
								}
							}
							for i := range fops {
								if nInj == 1 && fops[i].Injected && fops[i].Syscall == o.Syscall && fops[i].Kind == o.Kind &&
									(strings.TrimPrefix(fops[i].Path, fd) == strings.TrimPrefix(filt, base) || strings.TrimPrefix(fops[i].Path2, fd) == strings.TrimPrefix(filt, base)) {
									hit = true
									stats.ByPath++
								}
							}
							if nthTid == nthAll {
								break
							}
						}
					}
					// otherwise (a temporary file, whose name differs from run to run), or if that did not reach the call: the
					// ordinal on the recording's thread, a few times, before the position is given up as unreached
					for attempt := 0; attempt < 3 && !hit; attempt++ {
						runOnce(fmt.Sprintf("%s:error=%s:when=%d", o.Syscall, errno, o.Ord), nil)
						for i := range fops {
							if fops[i].Injected && fops[i].Syscall == cur.Syscall && fops[i].Kind == cur.Kind && sameModTmp(strings.TrimPrefix(fops[i].Path, fd), strings.TrimPrefix(cur.Path, base)) {
								hit = true
							}
						}
						if !hit {
							// The fault may land on another call than the intended one. If exactly one call on a repository path was
							// made to fail, the run is still a single-fault run: it is judged as a fault at the position where it
							// really happened.
							var act *FSOp
							nInj := 0
							for i := range fops {
								if fops[i].Injected {
									rel := strings.TrimPrefix(fops[i].Path, fd)
									if strings.HasPrefix(rel, "/root/") || strings.HasPrefix(rel, "/home/") {
										act = &fops[i]
										nInj++
									} else if !strings.HasPrefix(fops[i].Path, "/sys/") && !strings.HasPrefix(fops[i].Path, "/proc/") {
										// (a failed read of /sys/kernel/mm/transparent_hugepage/hpage_pmd_size is a probe of the Go runtime
										// whose failure it ignores; it is no operation of the command)
										nInj++
									}
								}
							}
							if nInj == 1 && act != nil {
								moved := *act
								moved.Path = base + strings.TrimPrefix(act.Path, fd)
								cur = &moved
								hit = true
								stats.Moved++
							}
						}
					}
					if !hit {
						if os.Getenv("VERIF_DEBUG") == "2" {
							inj := ""
							for i := range fops {
								if fops[i].Injected {
									inj += fmt.Sprintf(" [%s %s]", fops[i].Syscall, strings.TrimPrefix(fops[i].Path, fd))
								}
							}
							fmt.Fprintf(os.Stderr, "UNREACHED %s %s ord=%d %s %s | injected:%s\n", name, cur.Syscall, cur.Ord, cur.Kind, strings.TrimPrefix(cur.Path, base), inj)
						}
						stats.Unreached++
						os.RemoveAll(fd)
						continue
					}
					st := c.T.Project(fr.Root, fr.Home)
					if os.Getenv("VERIF_DEBUG") == "4" || os.Getenv("VERIF_DEBUG") == "3" && fileClass(base, cur.Path) == "wtfile" {
						fmt.Fprintf(os.Stderr, "FAULT %s %s ord=%d %s %s errno=%s res=%s wt=%v fin=%v\n", name, cur.Syscall, cur.Ord, cur.Kind, strings.TrimPrefix(cur.Path, base), errno, fx.Res, st["wt"], post["wt"])
					}
					obs := fr.Observe(roObs, st, nil)
					fl := emit(M{"kind": "state", "st": st, "obs": obs, "trace": label})
					step := cloneEv(cmdEv)
					step["kind"], step["cls"], step["trace"] = "step", "cmd", label
					step["argv"] = av
					step["prel"], step["postl"], step["finl"] = preLine, fl, finLine
					step["res"], step["exit"] = fx.Res, fx.Exit
					step["t0"], step["t1"], step["tz"] = int(fx.T0), int(fx.T1), r.TZ
					step["out"] = M{"c": "", "esc": "", "nl": false, "lines": []any{}}
					e := fx.Stderr
					if len(e) > 300 {
						e = e[:300]
					}
					step["err"] = Esc(e)
					step["fault"] = M{"sys": cur.Syscall, "errno": errno, "kind": cur.Kind, "fclass": fileClass(base, cur.Path), "name": EscS(strings.TrimPrefix(cur.Path, base+"/")), "ord": cur.Ord, "seq": oi}
					step["cmdres"] = x.Res
					sl := emit(step)
					ref.Events = append(ref.Events, M{"ev": "fault", "at": ei, "sys": cur.Syscall, "errno": errno, "ord": cur.Ord, "path": strings.TrimPrefix(cur.Path, base+"/")})
					ref.StepLine = append(ref.StepLine, sl)
					stats.FaultPoints++
					stats.ByCmd[name]++
					if len(stats.Samples) < 4 {
						stats.Samples = append(stats.Samples, M{"command": describeEv(ev), "fault": errno + " on " + cur.Syscall + " #" + fmt.Sprint(cur.Ord), "target": cur.Kind + " " + fileClass(base, cur.Path), "result": fx.Res})
					}
					os.RemoveAll(fd)
				}
			}
		}
		os.RemoveAll(preDir)
		tr.Cur, tr.CurLine = post, finLine
		preLine = finLine
		if !repoUsable(post) {
			break
		}
	}
	ref.Last = len(c.Lines)
	c.Traces = append(c.Traces, ref)
}

var defaultErrnos = map[string][]string{
	"open": {"EACCES"}, "creat": {"ENOSPC"}, "append": {"ENOSPC"}, "opentrunc": {"EACCES"}, "read": {"EIO"}, "getdents": {"EIO"},
	"write": {"ENOSPC"}, "mkdir": {"ENOSPC"}, "rename": {"EIO"}, "unlink": {"EIO"}, "rmdir": {"EIO"},
}
var thoroughErrnos = map[string][]string{
	"open": {"EACCES", "EIO"}, "creat": {"ENOSPC", "EACCES"}, "append": {"ENOSPC", "EACCES"}, "opentrunc": {"EACCES"}, "read": {"EIO"}, "getdents": {"EIO"},
	"write": {"ENOSPC", "EIO"}, "mkdir": {"ENOSPC", "EACCES"}, "rename": {"EIO", "EACCES"}, "unlink": {"EIO", "EACCES"}, "rmdir": {"EIO"},
}

// sameModuloTmpNames compares two projected states ignoring the names (not the contents) of Goit's temporary
// files (.goit/tmp-<pid>-<nanos>), which differ from run to run.
// For commit (shapeOnly) the commit id embeds the second of the run, so ids and id-dependent bytes are compared by shape.
func sameModuloTmpNames(a, b M, shapeOnly bool) bool {
	if shapeOnly {
		shape := func(st M) string {
			var keys []string
			ntmp := 0
			for k := range st["meta"].(M) {
				if strings.HasPrefix(k, "tmp-") {
					ntmp++
				} else {
					keys = append(keys, k)
				}
			}
			sort.Strings(keys)
			j := func(v any) string { b, _ := json.Marshal(v); return string(b) }
			return fmt.Sprint(keys, ntmp, sortedKeys(st["refs"].(M)), len(st["objs"].(M)), len(st["hlog"].([]any))) + j(st["wt"]) + j(st["idx"]) + j(st["head"]) + j(st["cfgl"])
		}
		return shape(a) == shape(b)
	}
	norm := func(st M) string {
		var parts []string
		var tmps []string
		for k, v := range st["meta"].(M) {
			if strings.HasPrefix(k, "tmp-") {
				tmps = append(tmps, v.(string))
			} else if strings.HasPrefix(k, "logs/") {
				parts = append(parts, k) // reflog lines embed the second of the run: compared through the parsed records below
			} else {
				parts = append(parts, k+"="+v.(string))
			}
		}
		sort.Strings(parts)
		sort.Strings(tmps)
		j := func(v any) string { b, _ := json.Marshal(v); return string(b) }
		return strings.Join(parts, ";") + "|" + strings.Join(tmps, ";") + "|" + j(st["wt"]) + j(st["idx"]) + j(st["objs"]) + j(st["refs"]) + j(st["head"]) + j(st["hlog"]) + j(st["blog"]) + j(st["cfgl"]) + j(st["cfgg"])
	}
	return norm(a) == norm(b)
}

var tmpNameRe = regexp.MustCompile(`tmp-[0-9]+-[0-9]+`)

// sameModTmp compares two paths up to the names of temporary files (tmp-<pid>-<nanoseconds>), which differ from run to run.
func sameModTmp(a, b string) bool {
	return tmpNameRe.ReplaceAllString(a, "tmp-*") == tmpNameRe.ReplaceAllString(b, "tmp-*")
}
