module verif

go 1.23
