package main

// File-level observation of the real binary through strace: the exact sequence of file-system
// operations of one command, without touching the source.

import (
	"bufio"
	"fmt"
	"os"
	"path/filepath"
	"regexp"
	"strconv"
	"strings"
)

type FSOp struct {
	Seq      int
	Tid      int
	Syscall  string
	Ord      int    // ordinal among the calls of Syscall on thread Tid (what strace's when= counts)
	Kind     string // open creat append write read getdents mkdir rename unlink rmdir other
	Path     string // absolute
	Path2    string
	Data     []byte
	Flags    string
	Fd       int
	Failed   bool
	Errno    string
	InRepo   bool
	Injected bool
	Raw      string
}

// Modifying reports whether the operation changed the file system (successful ones only).
func (o *FSOp) Modifying() bool {
	if o.Failed || !o.InRepo {
		return false
	}
	switch o.Kind {
	case "creat", "append", "write", "mkdir", "rename", "unlink", "rmdir", "opentrunc":
		return true
	}
	return false
}

const straceSyscalls = "openat,creat,read,getdents64,write,pwrite64,mkdir,mkdirat,rename,renameat,renameat2,unlink,unlinkat,rmdir,ftruncate,truncate,close"

func straceArgs(logPath string, inject string) []string {
	a := []string{"strace", "-f", "-y", "-xx", "-s", "16777216", "-o", logPath, "-e", "trace=" + straceSyscalls}
	if inject != "" {
		a = append(a, "-e", "inject="+inject)
	}
	return a
}

var straceEnv = []string{"GOMAXPROCS=1", "GOGC=off"}

func unhex(s string) []byte {
	out := make([]byte, 0, len(s)/4)
	for i := 0; i < len(s); i++ {
		if s[i] == '\\' && i+3 < len(s) && s[i+1] == 'x' {
			v, err := strconv.ParseUint(s[i+2:i+4], 16, 8)
			if err == nil {
				out = append(out, byte(v))
				i += 3
				continue
			}
		}
		out = append(out, s[i])
	}
	return out
}

// splitArgs splits a syscall argument list at top-level commas (outside quotes, <>, {} and []).
func splitArgs(s string) []string {
	var out []string
	depth := 0
	inq := false
	start := 0
	for i := 0; i < len(s); i++ {
		c := s[i]
		switch {
		case inq:
			if c == '\\' {
				i++
			} else if c == '"' {
				inq = false
			}
		case c == '"':
			inq = true
		case c == '<' || c == '{' || c == '[' || c == '(':
			depth++
		case c == '>' || c == '}' || c == ']' || c == ')':
			depth--
		case c == ',' && depth == 0:
			out = append(out, strings.TrimSpace(s[start:i]))
			start = i + 1
		}
	}
	if strings.TrimSpace(s[start:]) != "" {
		out = append(out, strings.TrimSpace(s[start:]))
	}
	return out
}

var fdRe = regexp.MustCompile(`^(-?[0-9]+|AT_FDCWD)<(.*)>$`)
var lineRe = regexp.MustCompile(`^([0-9]+)\s+([a-z0-9_]+)\((.*)\)\s+= (-?[0-9]+|\?)(<.*?>)?(?: ([A-Z]+) \((.*?)\))?( \(INJECTED\))?\s*$`)
var unfinishedRe = regexp.MustCompile(`^([0-9]+)\s+([a-z0-9_]+)\((.*) <unfinished \.\.\.>$`)
var resumedRe = regexp.MustCompile(`^([0-9]+)\s+<\.\.\. ([a-z0-9_]+) resumed>(.*)$`)

func fdPath(arg string) (int, string) {
	m := fdRe.FindStringSubmatch(arg)
	if m == nil {
		n, _ := strconv.Atoi(arg)
		return n, ""
	}
	n := -100
	if m[1] != "AT_FDCWD" {
		n, _ = strconv.Atoi(m[1])
	}
	return n, string(unhex(m[2]))
}

func quoted(arg string) []byte {
	arg = strings.TrimSuffix(arg, "...")
	if len(arg) >= 2 && arg[0] == '"' && arg[len(arg)-1] == '"' {
		return unhex(arg[1 : len(arg)-1])
	}
	return nil
}

func resolveAt(dirArg, pathArg string) string {
	_, dir := fdPath(dirArg)
	p := string(quoted(pathArg))
	if strings.HasPrefix(p, "/") {
		return filepath.Clean(p)
	}
	return filepath.Clean(filepath.Join(dir, p))
}

// parseStrace turns a strace log into FSOps. base is the scratch directory whose subtree counts as "the repository".
func parseStrace(logPath, base string) ([]FSOp, error) {
	f, err := os.Open(logPath)
	if err != nil {
		return nil, err
	}
	defer f.Close()
	sc := bufio.NewScanner(f)
	sc.Buffer(make([]byte, 1<<20), 1<<28)
	pending := map[string]string{}
	ord := map[string]int{}
	var ops []FSOp
	for sc.Scan() {
		ln := sc.Text()
		if m := unfinishedRe.FindStringSubmatch(ln); m != nil {
			pending[m[1]] = m[1] + " " + m[2] + "(" + m[3]
			continue
		}
		if m := resumedRe.FindStringSubmatch(ln); m != nil {
			if p, ok := pending[m[1]]; ok {
				ln = p + m[3]
				delete(pending, m[1])
			} else {
				continue
			}
		}
		m := lineRe.FindStringSubmatch(ln)
		if m == nil {
			continue
		}
		tid, _ := strconv.Atoi(m[1])
		sys := m[2]
		args := splitArgs(m[3])
		key := m[1] + ":" + sys
		ord[key]++
		op := FSOp{Seq: len(ops), Tid: tid, Syscall: sys, Ord: ord[key], Kind: "other", Raw: ""}
		ret, _ := strconv.Atoi(m[4])
		if m[4] == "?" || ret < 0 {
			op.Failed = true
			op.Errno = m[6]
		}
		op.Injected = m[8] != ""
		switch sys {
		case "openat":
			if len(args) < 3 {
				continue
			}
			op.Path = resolveAt(args[0], args[1])
			op.Flags = args[2]
			op.Fd = ret
			switch {
			case strings.Contains(op.Flags, "O_TRUNC") && strings.Contains(op.Flags, "O_CREAT"):
				op.Kind = "creat"
			case strings.Contains(op.Flags, "O_TRUNC"):
				op.Kind = "opentrunc"
			case strings.Contains(op.Flags, "O_APPEND"):
				op.Kind = "append"
			case strings.Contains(op.Flags, "O_CREAT"):
				op.Kind = "creat"
			default:
				op.Kind = "open"
			}
		case "creat":
			op.Path = filepath.Clean(string(quoted(args[0])))
			op.Kind = "creat"
			op.Fd = ret
		case "read", "getdents64", "write", "pwrite64", "close", "ftruncate":
			if len(args) < 1 {
				continue
			}
			fd, p := fdPath(args[0])
			op.Fd = fd
			op.Path = p
			switch sys {
			case "read":
				op.Kind = "read"
			case "getdents64":
				op.Kind = "getdents"
			case "write", "pwrite64":
				op.Kind = "write"
				if len(args) >= 2 {
					op.Data = quoted(args[1])
					if !op.Failed && ret >= 0 && ret < len(op.Data) {
						op.Data = op.Data[:ret]
					}
				}
			case "close":
				op.Kind = "close"
			case "ftruncate":
				op.Kind = "other"
			}
		case "mkdirat":
			op.Path = resolveAt(args[0], args[1])
			op.Kind = "mkdir"
		case "mkdir":
			op.Path = filepath.Clean(string(quoted(args[0])))
			op.Kind = "mkdir"
		case "renameat", "renameat2":
			op.Path = resolveAt(args[0], args[1])
			op.Path2 = resolveAt(args[2], args[3])
			op.Kind = "rename"
		case "rename":
			op.Path = filepath.Clean(string(quoted(args[0])))
			op.Path2 = filepath.Clean(string(quoted(args[1])))
			op.Kind = "rename"
		case "unlinkat":
			op.Path = resolveAt(args[0], args[1])
			op.Kind = "unlink"
			if len(args) > 2 && strings.Contains(args[2], "AT_REMOVEDIR") {
				op.Kind = "rmdir"
			}
		case "unlink":
			op.Path = filepath.Clean(string(quoted(args[0])))
			op.Kind = "unlink"
		case "rmdir":
			op.Path = filepath.Clean(string(quoted(args[0])))
			op.Kind = "rmdir"
		}
		op.InRepo = strings.HasPrefix(op.Path, base+"/") && !strings.HasPrefix(op.Path, base+"/tz_")
		ops = append(ops, op)
	}
	return ops, nil
}

// applyOps replays modifying operations ops (recorded under fromBase) onto the tree under toBase.
func applyOps(ops []FSOp, fromBase, toBase string) error {
	mapPath := func(p string) string { return toBase + strings.TrimPrefix(p, fromBase) }
	for i := range ops {
		o := &ops[i]
		if !o.Modifying() {
			continue
		}
		p := mapPath(o.Path)
		var err error
		switch o.Kind {
		case "creat", "opentrunc":
			err = os.WriteFile(p, nil, 0o666)
		case "append":
			var f *os.File
			f, err = os.OpenFile(p, os.O_CREATE|os.O_WRONLY|os.O_APPEND, 0o666)
			if err == nil {
				f.Close()
			}
		case "write":
			var f *os.File
			f, err = os.OpenFile(p, os.O_WRONLY|os.O_APPEND, 0o666)
			if err == nil {
				_, err = f.Write(o.Data)
				f.Close()
			}
		case "mkdir":
			err = os.Mkdir(p, 0o777)
		case "rename":
			err = os.Rename(p, mapPath(o.Path2))
		case "unlink":
			err = os.Remove(p)
		case "rmdir":
			err = os.Remove(p)
		}
		if err != nil {
			return fmt.Errorf("apply op %d %s %s: %w", o.Seq, o.Kind, o.Path, err)
		}
	}
	return nil
}

// fileClass names the role of a path inside the scratch repository.
func fileClass(base, p string) string {
	rel := strings.TrimPrefix(p, base+"/")
	switch {
	case rel == "home/.goitconfig":
		return "gconfig"
	case !strings.HasPrefix(rel, "root/"):
		return "other"
	}
	rel = strings.TrimPrefix(rel, "root/")
	switch {
	case rel == ".goit":
		return "goitdir"
	case rel == ".goit/HEAD":
		return "HEAD"
	case rel == ".goit/index":
		return "index"
	case rel == ".goit/config":
		return "config"
	case strings.HasPrefix(rel, ".goit/refs/heads/"):
		return "branch"
	case strings.HasPrefix(rel, ".goit/objects/") && len(rel) == len(".goit/objects/")+2:
		return "objdir"
	case strings.HasPrefix(rel, ".goit/objects/"):
		return "object"
	case rel == ".goit/logs/HEAD":
		return "hlog"
	case strings.HasPrefix(rel, ".goit/logs/refs/heads/"):
		return "blog"
	case strings.HasPrefix(rel, ".goit/"):
		return "metadir"
	}
	return "wtfile"
}

// RecordRunPath is RecordRun with the tracing (and so the counting of when=) restricted to calls on the given paths.
func (r *Runner) RecordRunPath(argv []string, inject string, logPath string, paths []string) (ExecResult, []FSOp, error) {
	a := straceArgs(logPath, inject)
	for _, p := range paths {
		a = append(a, "-P", p)
	}
	x := r.RunArgv(append(a, argv...), straceEnv)
	ops, err := parseStrace(logPath, r.Base)
	return x, ops, err
}

// RecordRun executes argv under strace in r's repository and returns its result and operations.
func (r *Runner) RecordRun(argv []string, inject string, logPath string) (ExecResult, []FSOp, error) {
	full := append(straceArgs(logPath, inject), argv...)
	x := r.RunArgv(full, straceEnv)
	ops, err := parseStrace(logPath, r.Base)
	return x, ops, err
}
