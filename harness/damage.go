package main

// C19: damage enumeration. Files Goit itself produced are damaged (every truncation, every single-byte deletion,
// single-byte substitutions, swapping two object files, generator-made arbitrary bytes) and every read-only
// command, plus the commands that deliver stored bytes (cat-file -p, restore, reset --hard), is run on the result.

import (
	"bytes"
	"compress/zlib"
	"fmt"
	"math/rand"
	"os"
	"os/exec"
	"path/filepath"
	"sort"
	"strings"
	"sync/atomic"
	"syscall"
)

type mutation struct {
	rel           string // file relative to base (root/.goit/...)
	kind          string // truncate delete subst swap arbitrary
	off           int
	val           int
	data          []byte // new content
	rel2          string
	class, class2 string
	mi            int
}

var arbSeqCtr int64

func zlibOf(b []byte) []byte {
	var buf bytes.Buffer
	w := zlib.NewWriter(&buf)
	w.Write(b)
	w.Close()
	return buf.Bytes()
}

// arbitraryFor makes generator-made byte strings for a file class (grammar-aware and random; no coverage guidance).
func arbitraryFor(class string, orig []byte, rng *rand.Rand) []byte {
	rb := func(n int) []byte { b := make([]byte, n); rng.Read(b); return b }
	switch class {
	case "object":
		payloads := [][]byte{
			[]byte("blob 3\x00abc"), []byte("blob 99999999999\x00abc"), []byte("blob -1\x00"), []byte("blob 3"), []byte("tree 5\x00abcde"),
			[]byte("tree 7\x00100644 "), []byte("tree 27\x00100644 a\x00" + "12345678901234567890"), []byte("tree 10\x0040000\x00abcd"),
			[]byte("commit 5\x00tree "), []byte("commit 46\x00tree " + strings.Repeat("a", 40) + "\n"), []byte("commit 60\x00tree zz\nauthor x\ncommitter y\n\nm\n"),
			[]byte("commit 7\x00author "), []byte("tag 0\x00"), []byte("undefined 0\x00"), []byte(" 0\x00"), []byte("blob  3\x00abc"), []byte("blob 0x3\x00abc"),
			[]byte("commit 100\x00tree " + strings.Repeat("a", 40) + "\nauthor A <a@b.cd> 1 +\ncommitter A <a@b.cd> 1 +0000\n\nm\n"),
			[]byte("commit 100\x00tree " + strings.Repeat("a", 40) + "\nparent zz\nauthor A <a@b.cd> 1 +0000\n"),
		}
		// well-formed commits with unusual but legal sign lines (the decoder must take them or refuse them, not crash)
		for _, sign := range []string{"dev> ops <t@example.com> 1700000000 +0000", "a <b> c <t@example.com> 1 +0000", " <t@example.com> 1700000000 -0030",
			"N <t@example.com> 99999999999999999999 +0000", "N <t@example.com> 1700000000 +9999", "N <t@example.com> 1700000000 +00", "N <> 1700000000 +0000", "N <t@example.com>  1700000000 +0000"} {
			body := "tree " + strings.Repeat("a", 40) + "\nauthor " + sign + "\ncommitter " + sign + "\n\nm\n"
			payloads = append(payloads, []byte(fmt.Sprintf("commit %d\x00%s", len(body), body)))
		}
		arbSeq := int(atomic.AddInt64(&arbSeqCtr, 1))
		switch arbSeq % 4 {
		case 0:
			return rb(rng.Intn(64))
		case 1:
			return zlibOf(rb(rng.Intn(64)))
		case 2:
			return zlibOf(payloads[(arbSeq/4)%len(payloads)])
		default:
			p := append([]byte{}, payloads[rng.Intn(len(payloads))]...)
			if len(p) > 0 {
				p[rng.Intn(len(p))] = byte(rng.Intn(256))
			}
			return zlibOf(p)
		}
	case "index":
		hdrs := [][]byte{[]byte("DIRC\x00\x00\x00\x01\xff\xff\xff\xff"), []byte("DIRC\x00\x00\x00\x01\x00\x00\x00\x01"), []byte("DIRC"), []byte("DIRX\x00\x00\x00\x01\x00\x00\x00\x00"),
			[]byte("DIRC\x00\x00\x00\x01\x00\x00\x00\x02" + strings.Repeat("a", 20) + "\xff\xff" + "ab"), []byte("DIRC\x00\x00\x00\x01\x7f\xff\xff\xff" + strings.Repeat("a", 22))}
		if rng.Intn(3) == 0 {
			return rb(rng.Intn(80))
		}
		return append(append([]byte{}, hdrs[rng.Intn(len(hdrs))]...), rb(rng.Intn(30))...)
	case "HEAD":
		v := []string{"", "ref: ", "ref: refs/heads/", "ref: refs/heads/main\n", "ref:refs/heads/main", "ref: refs/heads/a: b", "xref: refs/heads/main", "ref: refs/heads/../../x", "ref: refs/tags/x",
			strings.Repeat("a", 40), "ref: refs/heads/" + strings.Repeat("x", 5000), "\x00\x01\x02", "ref: refs/heads/main/extra", "ref: refs/heads/main: ref: refs/heads/dev"}
		if rng.Intn(4) == 0 {
			return rb(rng.Intn(50))
		}
		return []byte(v[rng.Intn(len(v))])
	case "branch":
		v := []string{"", strings.Repeat("0", 40), strings.Repeat("g", 40), strings.Repeat("a", 39), strings.Repeat("a", 41), strings.Repeat("a", 40) + "\n", "ref: refs/heads/main", strings.ToUpper(strings.Repeat("a", 40)), "\x00"}
		if rng.Intn(4) == 0 {
			return rb(rng.Intn(50))
		}
		return []byte(v[rng.Intn(len(v))])
	case "config", "gconfig":
		v := []string{"[", "[]", "[user", "name = x", "\tname = x\n", "[user]\nname", "[user]\n\t= x\n", "[user]\n\tname =\n", "[user]\n\tname\n", "[]\n\tk = v\n", "[a]\n[a]\n\tk = v\n\tk = w\n",
			"[user]\n\tname = a = b = c\n", "\n\n\n", "[user]\r\n\tname = x\r\n", "[user]\n\tname = " + strings.Repeat("y", 70000) + "\n", "=", "[x]]\n\t[k] = [v]\n"}
		if rng.Intn(4) == 0 {
			return rb(rng.Intn(60))
		}
		return []byte(v[rng.Intn(len(v))])
	case "hlog", "blog":
		z := strings.Repeat("0", 40)
		a := strings.Repeat("a", 40)
		v := []string{"", "\n", z, z + " " + z, z + " " + a + " x", z + " " + a + " N <e@x.yz> 1 +0000\tcommit", z + " " + a + " N <e@x.yz> 1 +0000\tcommit: ", z + " " + a + " N <e@x.yz> 1 +0000\tbogus: m\n",
			z + " zz N <e@x.yz> 1 +0000\tcommit: m\n", z + " " + a + "\tcommit: m\n", "a b c\td: e\n", z + " " + a + " N <e@x.yz> 1 +0000\tcommit: " + strings.Repeat("m", 70000) + "\n", string(orig) + "garbage without newline"}
		if rng.Intn(4) == 0 {
			return rb(rng.Intn(80))
		}
		return []byte(v[rng.Intn(len(v))])
	}
	return rb(rng.Intn(40))
}

// mutationsFor enumerates the damage applied to one file.
func mutationsFor(rel, class string, orig []byte, rng *rand.Rand, thorough bool) []mutation {
	var out []mutation
	n := len(orig)
	budget := 24
	if thorough {
		budget = 600
	}
	pick := func(total int) []int {
		idx := make([]int, 0, total)
		for i := 0; i < total; i++ {
			idx = append(idx, i)
		}
		if total > budget {
			rng.Shuffle(len(idx), func(i, j int) { idx[i], idx[j] = idx[j], idx[i] })
			// always keep the structurally interesting offsets: the first 24 and the last 4
			keep := map[int]bool{}
			for i := 0; i < 24 && i < total; i++ {
				keep[i] = true
			}
			for i := total - 4; i < total; i++ {
				if i >= 0 {
					keep[i] = true
				}
			}
			sel := []int{}
			for k := range keep {
				sel = append(sel, k)
			}
			for _, i := range idx {
				if len(sel) >= budget {
					break
				}
				if !keep[i] {
					sel = append(sel, i)
				}
			}
			sort.Ints(sel)
			return sel
		}
		return idx
	}
	for _, l := range pick(n) { // truncations to length l (0..n-1)
		out = append(out, mutation{rel: rel, kind: "truncate", off: l, data: append([]byte{}, orig[:l]...)})
	}
	for _, i := range pick(n) {
		d := append(append([]byte{}, orig[:i]...), orig[i+1:]...)
		out = append(out, mutation{rel: rel, kind: "delete", off: i, data: d})
	}
	for _, i := range pick(n) {
		vals := []int{int(orig[i]) ^ 1, int(orig[i]) ^ 0x80, 0, 0x20, 0x0a, 0xff, '0', '9', 'z', '/'}
		if thorough && i < 16 && class != "object" {
			vals = vals[:0]
			for v := 0; v < 256; v++ {
				vals = append(vals, v)
			}
		} else if !thorough {
			vals = []int{int(orig[i]) ^ 1, []int{0, 0x20, 0x0a, 0xff, '0', 'z', '/', int(orig[i]) ^ 0x80}[rng.Intn(8)]}
		}
		for _, v := range vals {
			if byte(v) == orig[i] {
				continue
			}
			d := append([]byte{}, orig...)
			d[i] = byte(v)
			out = append(out, mutation{rel: rel, kind: "subst", off: i, val: v, data: d})
		}
	}
	if class != "object" && class != "index" {
		out = append(out, tokenMutations(rel, orig, thorough)...)
	}
	na := 6
	if thorough {
		na = 60
	}
	if class == "object" {
		na = 40 // grammar-made and random payloads under the name of an existing object (crafted objects under their own ids come separately)
	}
	for i := 0; i < na; i++ {
		out = append(out, mutation{rel: rel, kind: "arbitrary", off: i, data: arbitraryFor(class, orig, rng)})
	}
	return out
}

// tokenMutations damages the fields of a text file (HEAD, branch, config, reflog) rather than single bytes: every
// blank-, tab- or newline-separated field is shortened to a few lengths (ids of 2, 4, 6, 7, 8 or 39 digits), emptied,
// lengthened (by one character, by two and by eight), split by a blank and joined with its neighbour. Decoders that check a field's alphabet but not its
// length, or index into a field, fail only on such shapes.
func tokenMutations(rel string, orig []byte, thorough bool) []mutation {
	var out []mutation
	type tok struct{ a, b int }
	var toks []tok
	start := -1
	for i := 0; i <= len(orig); i++ {
		sep := i == len(orig) || orig[i] == ' ' || orig[i] == '\t' || orig[i] == '\n'
		if !sep && start < 0 {
			start = i
		}
		if sep && start >= 0 {
			toks = append(toks, tok{start, i})
			start = -1
		}
	}
	maxTok := 14
	if thorough {
		maxTok = 60
	}
	// the first fields of the first record and the fields of the last record
	if len(toks) > maxTok {
		toks = append(append([]tok{}, toks[:maxTok/2]...), toks[len(toks)-maxTok/2:]...)
	}
	splice := func(a, b int, repl []byte) []byte {
		return append(append(append([]byte{}, orig[:a]...), repl...), orig[b:]...)
	}
	n := 0
	add := func(kind string, off int, d []byte) {
		out = append(out, mutation{rel: rel, kind: kind, off: off, val: n, data: d})
		n++
	}
	for _, t := range toks {
		w := orig[t.a:t.b]
		for _, l := range []int{0, 1, 2, 3, 4, 6, 7, 8, 39} {
			if l < len(w) {
				add("field-short", t.a, splice(t.a, t.b, w[:l]))
			}
		}
		add("field-long", t.a, splice(t.a, t.b, append(append([]byte{}, w...), w[len(w)-1])))
		// (an id lengthened by an even number of digits still decodes as hexadecimal: 21 and 24 bytes instead of 20)
		if len(w) >= 2 {
			add("field-long2", t.a, splice(t.a, t.b, append(append([]byte{}, w...), w[len(w)-2:]...)))
			add("field-long8", t.a, splice(t.a, t.b, append(append([]byte{}, w...), []byte("00000000")...)))
		}
		for _, at := range []int{1, 2, 4, 6, 7} {
			if at < len(w) {
				add("field-split", t.a+at, splice(t.a+at, t.a+at, []byte{' '}))
			}
		}
		if t.b < len(orig) {
			add("field-join", t.b, splice(t.b, t.b+1, nil))
		}
	}
	return out
}

var damageHangs int64

type dmgStats struct {
	Cases             int
	ByClass           map[string]int
	ByKind            map[string]int
	Samples           []any
	MaxRSSKB          int64
	SkippedAfterHangs int
}

// damageEnumerate builds a repository with the given events, then damages each metadata file in turn.
func damageEnumerate(goit string, c *Chunk, evs []M, contents map[string][]byte, tz int, rng *rand.Rand, label string, thorough bool, stats *dmgStats, infra *[]string, part, parts int) {
	base, err := os.MkdirTemp(scratchBase(), "vdmg")
	if err != nil {
		panic(err)
	}
	defer os.RemoveAll(base)
	r := NewRunner(goit, base, c.T)
	r.TZ = tz
	tr := NewTrace(r, roObs, label)
	for k, v := range contents {
		tr.Contents[k] = v
	}
	ref := &TraceRef{Label: label, First: len(c.Lines) + 1, Contents: tr.Contents, TZ0: tz, ObsSpec: roObs}
	for _, ev0 := range evs {
		ev := cloneEv(ev0)
		materialise(tr, ev)
		if _, ok := ev["idref"]; ok {
			resolveIds(c.T, tr.Cur, ev)
		}
		annotate(c.T, ev)
		tr.Step(ev)
		ref.Events = append(ref.Events, ev)
		ref.StepLine = append(ref.StepLine, 0)
	}
	good := tr.Cur
	c.Lines = append(c.Lines, M{"kind": "state", "st": good, "obs": r.Observe(roObs, good, nil), "trace": label})
	goodLine := len(c.Lines)
	tr.Lines = nil

	// collect target files
	type target struct{ rel, class string }
	var targets []target
	filepath.Walk(base, func(p string, info os.FileInfo, err error) error {
		if err != nil || info.IsDir() {
			return nil
		}
		cl := fileClass(base, p)
		switch cl {
		case "object", "index", "HEAD", "branch", "config", "gconfig", "hlog", "blog":
			targets = append(targets, target{strings.TrimPrefix(p, base+"/"), cl})
		}
		return nil
	})
	sort.Slice(targets, func(i, j int) bool { return targets[i].rel < targets[j].rel })
	var objTargets []target
	for _, t := range targets {
		if t.class == "object" {
			objTargets = append(objTargets, t)
		}
	}
	if !thorough && len(objTargets) > 6 {
		// quick: a seeded subset of the objects, all other files
		rng.Shuffle(len(objTargets), func(i, j int) { objTargets[i], objTargets[j] = objTargets[j], objTargets[i] })
		keep := map[string]bool{}
		for _, t := range objTargets[:6] {
			keep[t.rel] = true
		}
		var nt []target
		for _, t := range targets {
			if t.class != "object" || keep[t.rel] {
				nt = append(nt, t)
			}
		}
		targets = nt
	}
	var muts []mutation
	classOf := map[string]string{}
	for _, t := range targets {
		classOf[t.rel] = t.class
		orig, _ := os.ReadFile(filepath.Join(base, t.rel))
		muts = append(muts, mutationsFor(t.rel, t.class, orig, rng, thorough)...)
	}
	// swapping two valid object files
	for i := 0; i+1 < len(objTargets) && i < 8; i++ {
		muts = append(muts, mutation{rel: objTargets[i].rel, kind: "swap", rel2: objTargets[i+1].rel})
	}
	// crafted objects: well-formed object files stored under their correct ids with unusual content, made reachable
	// from the current branch, so that the tree / commit / sign decoders behind GetObject see them
	if h := headId(good); h != "" {
		if o := objOf(c.T, good, h); o != nil && o["k"] == "commit" {
			for _, cm := range craftedObjects(o["tree"].(string), h, thorough) {
				muts = append(muts, cm)
			}
		}
	}
	snap := readTreeFiles(base)
	ref.Snapshot = snap
	for mi, m := range muts {
		if parts > 1 && mi%parts != part {
			continue
		}
		if m.kind != "craft" {
			m.class = classOf[m.rel]
			m.class2 = classOf[m.rel2]
		}
		m.mi = mi
		if atomic.LoadInt64(&damageHangs) > 24 {
			stats.SkippedAfterHangs++ // the verdict is clear: hangs are not waited for a hundred times over
			continue
		}
		sl, results := damageCase(goit, c, snap, tz, good, goodLine, m, label, stats)
		ref.Events = append(ref.Events, M{"ev": "damage", "rel": m.rel, "kind": m.kind, "off": m.off, "val": m.val, "rel2": m.rel2, "hex": fmt.Sprintf("%x", m.data), "class": m.class, "class2": m.class2, "mi": mi})
		ref.StepLine = append(ref.StepLine, sl)
		stats.Cases++
		stats.ByClass[m.class]++
		stats.ByKind[m.kind]++
		if len(stats.Samples) < 5 && mi%97 == 0 {
			stats.Samples = append(stats.Samples, M{"file": m.rel, "mutation": m.kind, "offset": m.off, "results": results})
		}
	}
	ref.Last = len(c.Lines)
	c.Traces = append(c.Traces, ref)
}

func readTreeFiles(base string) map[string][]byte {
	out := map[string][]byte{}
	filepath.Walk(base, func(p string, info os.FileInfo, err error) error {
		if err != nil {
			return nil
		}
		rel := strings.TrimPrefix(p, base+"/")
		if strings.HasPrefix(rel, "tz_") || rel == "goit" {
			return nil
		}
		if info.IsDir() {
			if p != base {
				out[rel+"/"] = nil
			}
			return nil
		}
		b, _ := os.ReadFile(p)
		out[rel] = b
		return nil
	})
	return out
}

func materializeFiles(snap map[string][]byte, dir string) {
	keys := make([]string, 0, len(snap))
	for k := range snap {
		keys = append(keys, k)
	}
	sort.Strings(keys)
	for _, k := range keys {
		if strings.HasSuffix(k, "/") {
			os.MkdirAll(filepath.Join(dir, k), 0o777)
		}
	}
	for _, k := range keys {
		if !strings.HasSuffix(k, "/") {
			os.MkdirAll(filepath.Dir(filepath.Join(dir, k)), 0o777)
			os.WriteFile(filepath.Join(dir, k), snap[k], 0o666)
		}
	}
}

// damageCase materialises the good repository, applies one mutation, runs the commands and appends the
// damaged state line and the damage step line. Returns the step line number and the results.
func damageCase(goit string, c *Chunk, snap map[string][]byte, tz int, good M, goodLine int, m mutation, label string, stats *dmgStats) (int, M) {
	tracked := idxPaths(good)
	mi := m.mi
	d, _ := os.MkdirTemp(scratchBase(), "vdm")
	defer os.RemoveAll(d)
	materializeFiles(snap, d)
	classOf := map[string]string{m.rel: m.class, m.rel2: m.class2}
	var craftedIds []string
	if m.kind == "craft" {
		put := func(kind string, body []byte) string {
			id := gitId(kind, body)
			p := filepath.Join(d, "root", ".goit", "objects", id[:2], id[2:])
			os.MkdirAll(filepath.Dir(p), 0o777)
			os.WriteFile(p, zlibOf(append([]byte(fmt.Sprintf("%s %d\x00", kind, len(body))), body...)), 0o666)
			return id
		}
		id := put(m.class2, m.data)
		craftedIds = append(craftedIds, id)
		if m.class2 == "tree" {
			body := fmt.Sprintf("tree %s\nauthor T <t@example.com> 1700000000 +0000\ncommitter T <t@example.com> 1700000000 +0000\n\ncrafted\n", id)
			id = put("commit", []byte(body))
			craftedIds = append(craftedIds, id)
		}
		hb := string(Unesc(good["head"].(M)["branch"].(string)))
		os.WriteFile(filepath.Join(d, "root", ".goit", "refs", "heads", hb), []byte(id), 0o666)
	} else if m.kind == "swap" {
		a, _ := os.ReadFile(filepath.Join(d, m.rel))
		b, _ := os.ReadFile(filepath.Join(d, m.rel2))
		os.WriteFile(filepath.Join(d, m.rel), b, 0o666)
		os.WriteFile(filepath.Join(d, m.rel2), a, 0o666)
	} else {
		os.WriteFile(filepath.Join(d, m.rel), m.data, 0o666)
	}
	dr := runnerAt(goit, d, c.T, tz)
	dr.Timeout = 15e9
	// "allocates without bound" guard: the address space of the command is limited to 4 GiB (a decoder that believes a
	// damaged length field dies with the runtime's out-of-memory error, which counts as a crash), and the peak resident
	// size is compared with a bound. The kernel reports for a child at least the resident size this process had when it
	// spawned it (the peak is carried over the exec), so the bound is relative to that.
	if _, err := exec.LookPath("prlimit"); err == nil {
		dr.Wrap = func(argv []string) []string { return append([]string{"prlimit", "--as=4294967296"}, argv...) }
	}
	rssBound := selfPeakRSSKB() + 1<<20
	st := c.T.Project(dr.Root, dr.Home)
	results := M{}
	hung := false
	run := func(name string, args ...string) ExecResult {
		if hung || atomic.LoadInt64(&damageHangs) > 24 {
			// one hang decides the case (every further command on this repository would wait for the timeout again);
			// after two dozen hangs in one check the verdict is clear and the remaining cases only run until their first hang
			if hung {
				return ExecResult{Res: "skipped"}
			}
		}
		x := dr.RunGoit(args...)
		if x.Res == "hang" {
			hung = true
			atomic.AddInt64(&damageHangs, 1)
		}
		res := x.Res
		if x.MaxRSSKB > rssBound {
			res = "alloc"
		}
		if x.MaxRSSKB > stats.MaxRSSKB {
			stats.MaxRSSKB = x.MaxRSSKB
		}
		results[name] = res
		return x
	}
	run("status", "status")
	run("ls", "ls-files", "-s")
	xlog := run("log", "log")
	run("reflog", "reflog")
	run("branches", "branch", "--list")
	run("revparse", "rev-parse", "HEAD")
	run("writetree", "write-tree")
	delivered := []any{}
	// cat-file of the damaged object (by the name it is stored under) and of HEAD's commit and tree
	ids := []string{}
	for _, rel := range []string{m.rel, m.rel2} {
		if classOf[rel] == "object" {
			parts := strings.Split(rel, "/")
			if len(parts) >= 2 {
				ids = append(ids, parts[len(parts)-2]+parts[len(parts)-1])
			}
		}
	}
	if h := headId(good); h != "" {
		ids = append(ids, h)
		if o := objOf(c.T, good, h); o != nil && o["k"] == "commit" {
			ids = append(ids, o["tree"].(string))
		}
	}
	ids = append(ids, craftedIds...)
	for _, id := range ids {
		if xt := run("cat-t:"+id[:7], "cat-file", "-t", id); xt.Res == "ok" {
			// the kind printed for an id must be the kind of the intact object stored under that id: a damaged object
			// (truncated, changed, or another object's file under this name) has no kind to report
			printed := strings.TrimSpace(string(xt.Stdout))
			cid := "no-intact-" + printed + "-under-this-id"
			if tok, ok := st["objs"].(M)[id]; ok {
				if o := c.T.Objects[tok.(string)]; o != nil && o["k"] == printed && (printed == "blob" || printed == "tree" || printed == "commit") {
					cid = id
				}
			}
			delivered = append(delivered, M{"id": id, "kind": printed, "c": "", "cid": cid, "res": "ok", "via": "cat-file-t"})
		}
		x := run("cat-p:"+id[:7], "cat-file", "-p", id)
		if x.Res != "ok" {
			continue
		}
		body := x.Stdout
		if len(body) > 0 && body[len(body)-1] == '\n' {
			body = body[:len(body)-1]
		}
		kind := "blob"
		cid := gitId("blob", body)
		if gitId("commit", body) == id {
			kind, cid = "commit", id
		} else if cid != id {
			// not a blob or commit that hashes to id: a tree listing is acceptable only if the stored object is intact
			if tok, ok := st["objs"].(M)[id]; ok {
				if o := c.T.Objects[tok.(string)]; o != nil && o["k"] == "tree" {
					kind, cid = "tree", id
				}
			}
		}
		delivered = append(delivered, M{"id": id, "kind": kind, "c": c.T.Content(body), "cid": cid, "res": "ok", "via": "cat-file"})
	}
	// restore / reset --hard deliver staged bytes into the working tree
	if len(tracked) > 0 && mi%3 == 0 {
		p := tracked[mi%len(tracked)]
		os.Remove(filepath.Join(dr.Root, p))
		x := run("restore", "restore", p)
		if x.Res == "ok" {
			if b, err := os.ReadFile(filepath.Join(dr.Root, p)); err == nil {
				want := ""
				for _, e := range good["idx"].(M)["ents"].([]any) {
					if string(Unesc(e.(M)["p"].(string))) == p {
						want = e.(M)["id"].(string)
					}
				}
				// the staging area itself may be the damaged file: compare with what the damaged index says
				for _, e := range st["idx"].(M)["ents"].([]any) {
					if string(Unesc(e.(M)["p"].(string))) == p {
						want = e.(M)["id"].(string)
					}
				}
				delivered = append(delivered, M{"id": want, "kind": "blob", "c": c.T.Content(b), "cid": gitId("blob", b), "res": "ok", "via": "restore"})
			}
		}
	}
	if len(tracked) > 0 && mi%3 == 1 {
		run("restore-staged", "restore", "--staged", tracked[mi%len(tracked)])
	}
	if mi%5 == 0 {
		run("reset-hard", "reset", "--hard", "HEAD@{0}")
	}
	// a modifying command that loads everything (HEAD, branch, index, config, the HEAD snapshot) and then writes; it comes
	// last because it moves the branch
	run("commit", "commit", "-m", "after the damage")
	c.Lines = append(c.Lines, M{"kind": "state", "st": st, "obs": M{}, "trace": label})
	dl := len(c.Lines)
	// damage to an object file: what log lists (if it still succeeds) against what it listed before the damage
	var logIds, goodLogIds []any
	if m.class == "object" && m.kind != "craft" && xlog.Res == "ok" {
		logIds, goodLogIds = []any{}, []any{}
		for _, en := range parseLogOut(xlog.Stdout) {
			logIds = append(logIds, en.(M)["id"])
		}
		if gl, ok := c.Lines[goodLine-1]["obs"].(M); ok {
			if lg, ok := gl["log"].(M); ok {
				if d, ok := lg["d"].(M); ok {
					for _, en := range d["ents"].([]any) {
						goodLogIds = append(goodLogIds, en.(M)["id"])
					}
				}
			}
		}
	}
	step := M{"kind": "step", "cls": "fs", "ev": "damage", "prel": goodLine, "postl": dl, "results": results, "delivered": delivered, "trace": label,
		"target": M{"fclass": classOf[m.rel], "mutation": m.kind, "off": m.off, "val": m.val, "name": EscS(m.rel)}, "res": "damage"}
	if logIds != nil {
		step["logids"], step["goodlogids"] = logIds, goodLogIds
	}
	c.Lines = append(c.Lines, step)
	sl := len(c.Lines)
	return sl, results
}

var _ = syscall.Getpid

// craftedObjects returns mutations of kind "craft": data is the body of an object of kind class2 that is written under
// its correct id; a crafted commit becomes the tip of the current branch, a crafted tree gets a commit on top of it.
func craftedObjects(tree, parent string, thorough bool) []mutation {
	var out []mutation
	add := func(kind, body string) {
		out = append(out, mutation{rel: "crafted-" + kind, kind: "craft", off: len(out), data: []byte(body), class: "crafted", class2: kind})
	}
	ok := "T <t@example.com> 1700000000 +0000"
	signs := []string{"dev> ops <t@example.com> 1700000000 +0000", "a <b> c <t@example.com> 1 +0000", " <t@example.com> 1700000000 -0030",
		"N <t@example.com> 99999999999999999999 +0000", "N <t@example.com> 1700000000 +9999", "N <t@example.com> 1700000000 +00", "N <> 1700000000 +0000",
		"N <t@example.com>  1700000000 +0000", "N t@example.com 1700000000 +0000", "<t@example.com> 1700000000 +0000", "N <t@example.com> 1700000000", "N <t@example.com> -5 +0000",
		"N <t@example.com> 1700000000 +0000 ", "N <t@ex ample.com> 1700000000 +0000", "Zo\xc3\xab <t@example.com> 1700000000 -1200"}
	for _, s := range signs {
		add("commit", "tree "+tree+"\nparent "+parent+"\nauthor "+s+"\ncommitter "+s+"\n\nm\n")
	}
	add("commit", "tree "+tree+"\nparent "+parent+"\nauthor "+ok+"\n\nno committer\n")
	add("commit", "tree "+tree+"\nauthor "+ok+"\ncommitter "+ok+"\nencoding latin1\n\nextra header\n")
	add("commit", "tree "+tree+"\ntree "+tree+"\nauthor "+ok+"\ncommitter "+ok+"\n\ntwo trees\n")
	add("commit", "tree "+tree+"\nparent "+strings.Repeat("e", 40)+"\nauthor "+ok+"\ncommitter "+ok+"\n\nmissing parent\n")
	add("commit", "tree "+tree+"\nparent "+parent[:39]+"\nauthor "+ok+"\ncommitter "+ok+"\n\nshort parent\n")
	add("commit", "tree "+tree+"\nparent "+parent+"\nauthor "+ok+"\ncommitter "+ok+"\n\nno trailing newline")
	add("commit", "tree "+tree+"\nparent "+parent+"\nauthor "+ok+"\ncommitter "+ok)
	add("commit", "tree "+tree+"\nparent "+parent+"\nauthor "+ok+"\ncommitter "+ok+"\n\n")
	add("commit", "tree "+strings.Repeat("e", 40)+"\nauthor "+ok+"\ncommitter "+ok+"\n\nmissing tree\n")
	add("commit", "tree "+parent+"\nauthor "+ok+"\ncommitter "+ok+"\n\ntree line names a commit\n")
	add("commit", "parent "+parent+"\nauthor "+ok+"\ncommitter "+ok+"\n\nno tree line\n")
	add("commit", "")
	add("commit", "tree "+tree+"\nparent "+parent+"\nauthor "+ok+"\ncommitter "+ok+"\n\n"+strings.Repeat("long line ", 20000)+"\n")
	id20 := strings.Repeat("\x11", 20)
	add("tree", "")
	add("tree", "100644 a\x00"+id20)
	add("tree", "100644 with space\x00"+id20)
	add("tree", "040000 d\x00"+id20)
	add("tree", "100644 \x00"+id20)
	add("tree", "100644\x00"+id20)
	add("tree", "100644 a\x00"+id20[:19])
	add("tree", "100644 a\x00"+id20+"100644 a\x00"+id20)
	add("tree", "100644 b\x00"+id20+"100644 a\x00"+id20)
	add("tree", "100644 a/b\x00"+id20)
	add("tree", "100755 x\x00"+id20)
	add("tree", "120000 l\x00"+id20)
	add("tree", "160000 sub\x00"+id20)
	add("tree", "100644 a\x00"+id20+"garbage")
	add("tree", "1 a\x00"+id20)
	add("tree", " a\x00"+id20)
	return out
}

// selfPeakRSSKB is the peak resident set size of this process (VmHWM), in KiB.
func selfPeakRSSKB() int64 {
	b, err := os.ReadFile("/proc/self/status")
	if err != nil {
		return 0
	}
	for _, ln := range strings.Split(string(b), "\n") {
		if strings.HasPrefix(ln, "VmHWM:") {
			var kb int64
			fmt.Sscanf(strings.TrimSpace(strings.TrimPrefix(ln, "VmHWM:")), "%d", &kb)
			return kb
		}
	}
	return 0
}
