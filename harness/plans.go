package main

import (
	"encoding/json"
	"fmt"
	"math/rand"
	"os"
	"path/filepath"
	"sort"
	"strconv"
	"strings"
	"sync"
	"time"
)

var plans = map[string]func(cx *CheckCtx) int{}

var allTZs = func() []int {
	var out []int
	for q := -48; q <= 56; q++ {
		out = append(out, q*15)
	}
	return out
}()

func baseProfile(name string) *Profile {
	return &Profile{Name: name, Paths: append(append([]string{}, famSib...), famNest...), Branches: defaultBranches, Msgs: defaultMsgs,
		Classes: []string{"text", "empty", "nul", "digits_space", "header_like"}, MaxSize: 200, Weights: weightsDefault(),
		TZs: []int{540, 0, 330, 60}, Steps: 40, Hostile: 5, Ignore: [][]string{{}, {"build/"}, {"*.exe"}, {"build/", "*.exe"}}}
}

func withW(p *Profile, kv ...any) *Profile {
	w := map[string]int{}
	for k, v := range p.Weights {
		w[k] = v
	}
	for i := 0; i+1 < len(kv); i += 2 {
		w[kv[i].(string)] = kv[i+1].(int)
	}
	p.Weights = w
	return p
}

// profilesFor returns the random-driver profiles used for a property.
func profilesFor(id string) []*Profile {
	switch id {
	case "C01":
		p := baseProfile("store")
		p.Paths = []string{"a", "b", "d/c", "bin.dat"}
		p.Classes = []string{"empty", "text", "nul", "newline_only", "invalid_utf8", "header_like", "digits_space", "big_compressible", "big_random", "crlf"}
		p.MaxSize = 70000
		withW(p, "write", 30, "add", 25, "commit", 10, "reset", 2, "branch", 0, "branchd", 0, "branchr", 0, "switch", 0, "switchc", 0, "updateref", 0, "config", 0, "rewrite", 6,
			"hashobject", 8, "writetree", 4)
		p.Obs = ObsSpec{Hash: true, CatFile: true}
		return []*Profile{p}
	case "C02", "C04", "C09", "C06", "C07":
		var out []*Profile
		for i, fam := range [][]string{famSib, famNest, famOdd, famExt} {
			p := baseProfile(fmt.Sprintf("stage%d", i))
			p.Paths = fam
			withW(p, "updateref", 0, "config", 0, "settz", 0)
			switch id {
			case "C06":
				p.Obs = ObsSpec{Ls: true}
				withW(p, "add", 20, "rm", 10, "restore", 10, "restores", 6)
			case "C07":
				p.Obs = ObsSpec{Status: true}
			case "C09":
				withW(p, "restore", 14, "restores", 14, "remove", 8, "rmdir", 4)
			case "C04":
				withW(p, "add", 24, "rm", 12, "remove", 8, "rmdir", 3, "dfswap", 3)
			case "C02":
				withW(p, "config", 3, "commit", 14)
			}
			out = append(out, p)
		}
		{
			q := baseProfile("sampled")
			q.Sample = true
			withW(q, "updateref", 0, "config", 0, "settz", 0, "dfswap", 3, "rmdir", 4, "reset", 7, "commit", 11, "restore", 6, "restores", 6, "rm", 6)
			switch id {
			case "C06":
				q.Obs = ObsSpec{Ls: true}
			case "C07":
				q.Obs = ObsSpec{Status: true}
			}
			out = append(out, q)
		}
		if id == "C02" {
			// identity split over the two scopes (no identity configured up front)
			p := baseProfile("identity")
			p.Paths = []string{"a", "b", "d/c"}
			p.NoInitCfg = true
			p.CfgVals = []string{"Alice", "Bob B", "Zoë"}
			withW(p, "config", 16, "commit", 14, "write", 12, "add", 12, "updateref", 0, "settz", 0, "reset", 2, "rm", 1, "restore", 1, "restores", 1, "branch", 1, "branchd", 0, "branchr", 1, "switch", 1, "switchc", 1)
			out = append(out, p)
		}
		return out
	case "C03":
		p := baseProfile("hostile")
		p.Hostile = 35
		p.Paths = append(append([]string{}, famSib...), famOdd...)
		withW(p, "updateref", 8, "branch", 6, "branchr", 5, "switchc", 4, "reset", 8)
		q := baseProfile("mixed")
		q.Hostile = 10
		withW(q, "dfswap", 4, "restores", 8, "restore", 6)
		p.Obs.Reflog = true // reset positions are resolved through the reflog view (C08_Refuse is also a C03 clause)
		q.Obs.Reflog = true
		return []*Profile{p, q}
	case "C05":
		var out []*Profile
		for i, fam := range [][]string{famOdd, famNest, famSib, famExt} {
			p := baseProfile(fmt.Sprintf("tree%d", i))
			p.Paths = fam
			withW(p, "commit", 14, "reset", 12, "rm", 8, "updateref", 0, "config", 0, "cpdir", 4)
			p.Obs = ObsSpec{CatFile: true, Ls: true, Reflog: true}
			out = append(out, p)
		}
		return out
	case "C08":
		p := baseProfile("reset")
		withW(p, "reset", 18, "commit", 12, "remove", 6, "rmdir", 4, "switch", 4, "branchr", 3)
		p.Obs = ObsSpec{Reflog: true}
		q := baseProfile("resetodd")
		q.Paths = famOdd
		withW(q, "reset", 18, "commit", 12, "remove", 6, "rmdir", 4)
		q.Obs = ObsSpec{Reflog: true}
		s := baseProfile("resetsampled")
		s.Sample = true
		withW(s, "reset", 16, "commit", 12, "remove", 6, "rmdir", 4, "write", 16, "add", 14, "dfswap", 2)
		s.Obs = ObsSpec{Reflog: true}
		return []*Profile{p, q, s}
	case "C10":
		p := baseProfile("refs")
		p.Paths = []string{"a", "b"}
		withW(p, "branch", 10, "branchd", 8, "branchr", 6, "switch", 8, "switchc", 6, "updateref", 8, "commit", 10, "reset", 5, "write", 10, "add", 10,
			"rm", 1, "restore", 0, "restores", 0, "remove", 0, "rmdir", 0, "touch", 0, "mkdir", 0)
		p.Obs = ObsSpec{Branches: true, RevParse: true, Reflog: true}
		// the branch commands in every spelling the command line grammar produces (surplus and combined arguments)
		p.RawOnly = []string{"branch", "switch", "update-ref", "rev-parse"}
		withW(p, "raw", 8, "revparse", 6)
		return []*Profile{p}
	case "C11":
		p := baseProfile("reflog")
		p.Paths = []string{"a", "b", "d/c"}
		p.TZs = []int{540, 0, -300, 330, -210, 765}
		withW(p, "commit", 14, "switch", 8, "switchc", 5, "reset", 10, "branchr", 5, "branchd", 4, "branch", 5, "settz", 3, "write", 12, "add", 12)
		p.Obs = ObsSpec{Reflog: true}
		return []*Profile{p}
	case "C12":
		p := baseProfile("sign")
		p.Paths = []string{"a", "b"}
		p.TZs = allTZs
		p.CfgVals = []string{"Alice", "Bob B", "Zoë Ünï", "O'Neil", "a.b-c", "名前", "J. R. \"Bob\" Dobbs", "x=y", "[br]", "#hash", "50% Dev", "dev> ops", "a %s b", "back\\slash"}
		withW(p, "commit", 20, "settz", 14, "config", 8, "write", 16, "add", 16, "reset", 1, "rm", 1, "branch", 0, "branchd", 0, "branchr", 0, "switch", 0, "switchc", 0, "updateref", 0,
			"restore", 0, "restores", 0, "remove", 0, "rmdir", 0, "touch", 0, "mkdir", 0)
		p.Msgs = append(append([]string{}, defaultMsgs...), "multi\n\nblank\nlines: yes", strings.Repeat("long ", 500), "colon: at: start")
		p.Obs = ObsSpec{Log: true, LogKs: []int{1, 4}, CatFile: true}
		// identity split over the two scopes (no identity configured up front)
		q := baseProfile("identity")
		q.Paths = []string{"a", "b"}
		q.NoInitCfg = true
		q.CfgVals = []string{"Alice", "Bob B", "Zoë"}
		withW(q, "config", 18, "commit", 14, "write", 12, "add", 12, "updateref", 0, "settz", 2, "reset", 1, "rm", 1, "restore", 0, "restores", 0, "branch", 0, "branchd", 0, "branchr", 0, "switch", 0, "switchc", 0,
			"remove", 0, "rmdir", 0, "touch", 0, "mkdir", 0, "cpdir", 0)
		q.TZs = []int{0, 540, -300}
		q.Obs = ObsSpec{Log: true, LogKs: []int{1}}
		return []*Profile{p, q}
	case "C13", "C17":
		p := baseProfile("worktree")
		p.Paths = append(append([]string{}, famIgn...), "d/e/f/g", "d/e/h", "lib/a", "lib.go", "pkg.tar.gz", "dist/p-1.tar.gz", "x.min.js")
		p.Ignore = [][]string{{}, {"build/"}, {"*.exe"}, {"build/", "*.exe"}, {"*.tar.gz"}, {"*.min.js", "build/"}, {"a(b/", "*.exe"}, {"*.c++"}, {"[x]/"}}
		withW(p, "write", 18, "rewrite", 6, "touch", 6, "remove", 8, "rmdir", 5, "ignore", 5, "add", 14, "mkdir", 2, "updateref", 0, "config", 0)
		p.Obs = ObsSpec{Status: true, Ls: true}
		r := baseProfile("dirs")
		r.Paths = append(append([]string{}, famExt...), famSib...)
		withW(r, "write", 18, "rewrite", 4, "touch", 3, "remove", 8, "rmdir", 9, "add", 16, "commit", 6, "reset", 7, "updateref", 0, "config", 0)
		r.Obs = ObsSpec{Status: true, Ls: true, Reflog: true} // reset positions are resolved through the reflog view (C17_MetaSafeReset)
		q := baseProfile("noignore")
		q.Paths = append(append([]string{}, famIgn...), famOdd...)
		withW(q, "write", 18, "rewrite", 6, "touch", 6, "remove", 8, "rmdir", 5, "add", 14)
		q.Obs = ObsSpec{Status: true, Ls: true}
		return []*Profile{p, q, r}
	case "C14":
		p := baseProfile("log")
		p.Paths = []string{"a", "b"}
		withW(p, "commit", 22, "write", 18, "add", 18, "reset", 6, "switch", 5, "switchc", 4, "branch", 3, "updateref", 4,
			"rm", 1, "restore", 0, "restores", 0, "remove", 0, "rmdir", 0, "touch", 0, "mkdir", 0, "branchd", 1, "branchr", 1)
		p.Obs = ObsSpec{Log: true, LogKs: []int{-1, 0, 1, 2, 3, 4, 5, 6, 7, 9}}
		p.Steps = 60
		return []*Profile{p}
	case "C18":
		p := baseProfile("cli")
		p.Hostile = 25
		p.Paths = append(append(append([]string{}, famOdd...), "a", "d/x", "d(1/x", "d[/y"), famExt...)
		p.NoInitCfg = true
		withW(p, "raw", 30, "config", 4, "dfswap", 3, "ignore", 3)
		p.Ignore = [][]string{{}, {"build/"}, {"a(b/"}, {"*.c++"}, {"x)y/", "*.e(x"}, {"*.exe"}}
		p.Obs = allObs()
		p.Obs.CatFile = false
		p.Obs.Hash = false
		q := baseProfile("cli2")
		q.Hostile = 15
		withW(q, "raw", 20)
		q.Obs = allObs()
		q.Obs.Hash = false
		return []*Profile{p, q}
	case "C20":
		p := baseProfile("config")
		p.Paths = []string{"a", "b"}
		p.NoInitCfg = true
		p.CfgVals = []string{"plain", "inner space", "a=b", "a = b", "[x]", "#x", "\"q\"", "'q'", "é ü", "x;y", "k = v = w", "=", "][", "100%", "%d %s", "a>b", "tab-free"}
		withW(p, "config", 30, "commit", 12, "write", 12, "add", 12, "reset", 0, "rm", 1, "branch", 0, "branchd", 0, "branchr", 0, "switch", 0, "switchc", 0, "updateref", 0,
			"restore", 0, "restores", 0, "remove", 0, "rmdir", 0, "touch", 0, "mkdir", 0, "settz", 0)
		p.Obs = ObsSpec{}
		return []*Profile{p}
	}
	return []*Profile{baseProfile("default")}
}

// loadScenarios reads scenarios/*.json whose "props" list contains id (or all when the list is empty).
func loadScenarios(id string) []*Scenario {
	var out []*Scenario
	files, _ := filepath.Glob(filepath.Join(verifDir(), "scenarios", "*.json"))
	sort.Strings(files)
	for _, f := range files {
		b, err := os.ReadFile(f)
		if err != nil {
			continue
		}
		var raw struct {
			Scenario
			Props []string `json:"props"`
		}
		if json.Unmarshal(b, &raw) != nil {
			continue
		}
		ok := len(raw.Props) == 0
		for _, p := range raw.Props {
			if p == id {
				ok = true
			}
		}
		if ok {
			s := raw.Scenario
			out = append(out, &s)
		}
	}
	return out
}

// thoroughExtras: profiles that only the thorough tier runs (long histories, multi-MiB contents).
func thoroughExtras(id string) []*Profile {
	switch id {
	case "C01":
		p := baseProfile("bigstore")
		p.Paths = []string{"big.bin", "a"}
		p.Classes = []string{"big_random", "big_compressible", "nul", "header_like"}
		p.MaxSize = 6 << 20
		p.Steps = 10
		withW(p, "write", 30, "add", 30, "commit", 10, "restore", 6, "reset", 2, "branch", 0, "branchd", 0, "branchr", 0, "switch", 0, "switchc", 0, "updateref", 0, "config", 0, "touch", 0, "mkdir", 0)
		p.Obs = ObsSpec{Hash: true, CatFile: true}
		return []*Profile{p}
	case "C14", "C11", "C08":
		p := baseProfile("longhistory")
		p.Paths = []string{"a", "b"}
		p.Steps = 220
		withW(p, "commit", 30, "write", 30, "add", 30, "reset", 5, "switch", 3, "switchc", 2, "branch", 1, "updateref", 1,
			"rm", 0, "restore", 0, "restores", 0, "remove", 0, "rmdir", 0, "touch", 0, "mkdir", 0, "branchd", 1, "branchr", 1, "config", 0)
		p.Obs = obsFor(id)
		return []*Profile{p}
	}
	return nil
}

func randomJobs(id string, nTraces int, perChunk int, stepsScale float64) []Job {
	profs := profilesFor(id)
	if stepsScale > 1.0 {
		// thorough tier: every 8th trace comes from an extra profile
		if ex := thoroughExtras(id); len(ex) > 0 {
			mixed := []*Profile{}
			for i := 0; i < 7; i++ {
				mixed = append(mixed, profs[i%len(profs)])
			}
			mixed = append(mixed, ex[0])
			profs = mixed
		}
	}
	var jobs []Job
	n := 0
	for n < nTraces {
		k := perChunk
		if n+k > nTraces {
			k = nTraces - n
		}
		start := n
		jobs = append(jobs, Job{Name: fmt.Sprintf("random[%d..%d)", start, start+k), Make: func(goit string, c *Chunk, rng *rand.Rand) {
			for i := 0; i < k; i++ {
				p := *profs[(start+i)%len(profs)]
				if p.Name != "bigstore" && p.Name != "longhistory" {
					p.Steps = int(float64(p.Steps) * stepsScale)
				}
				base, err := os.MkdirTemp(scratchBase(), "vrun")
				if err != nil {
					panic(err)
				}
				tr := runRandom(goit, base, c.T, &p, rng, fmt.Sprintf("%s#%d", p.Name, start+i))
				c.Add(tr, 0)
				os.RemoveAll(base)
			}
		}})
		n += k
	}
	return jobs
}

func scenarioJob(id string, obs ObsSpec) []Job {
	scs := loadScenarios(id)
	if len(scs) == 0 {
		return nil
	}
	return []Job{{Name: "scenarios", Make: func(goit string, c *Chunk, rng *rand.Rand) {
		for _, s := range scs {
			base, err := os.MkdirTemp(scratchBase(), "vscn")
			if err != nil {
				panic(err)
			}
			tr := runScenario(goit, base, c.T, s, obs)
			c.Add(tr, s.TZ)
			os.RemoveAll(base)
		}
	}}}
}

func obsFor(id string) ObsSpec {
	o := ObsSpec{}
	for _, p := range profilesFor(id) {
		o.Status = o.Status || p.Obs.Status
		o.Ls = o.Ls || p.Obs.Ls
		o.Reflog = o.Reflog || p.Obs.Reflog
		o.Branches = o.Branches || p.Obs.Branches
		o.RevParse = o.RevParse || p.Obs.RevParse
		o.Log = o.Log || p.Obs.Log
		o.CatFile = o.CatFile || p.Obs.CatFile
		o.Hash = o.Hash || p.Obs.Hash
		for _, k := range p.Obs.LogKs { // union of the profiles' -n values
			have := false
			for _, x := range o.LogKs {
				have = have || x == k
			}
			if !have {
				o.LogKs = append(o.LogKs, k)
			}
		}
	}
	return o
}

func functionalPlan(id string, quickTraces, thoroughTraces int) func(cx *CheckCtx) int {
	return func(cx *CheckCtx) int {
		n := quickTraces
		scale := 1.0
		if cx.Tier == "thorough" {
			n = thoroughTraces
			scale = 1.5
		}
		jobs := scenarioJob(id, obsFor(id))
		jobs = append(jobs, modelJobs(cx, id)...)
		if id == "C05" || id == "C02" || id == "C07" || id == "C06" || id == "C08" {
			// replay of the exhaustive tree-algebra instance MC_Tree (all subsets of a confusing name universe)
			size := 2
			if cx.Tier == "thorough" {
				size = 5
			}
			if id == "C05" && cx.Tier == "quick" {
				size = 3
			}
			jobs = append(jobs, treeSubsetJobs(id, size, obsFor(id))...)
		}
		jobs = append(jobs, randomJobs(id, n, 12, scale)...)
		cx.runJobs(jobs, "GoitTrace")
		return cx.finish("model_checking",
			"steps of executions of the real goit binary (drivers: TLC-generated behaviours of the bounded operational model, seeded state-aware random command sequences, scenario corpus), each judged by TLC against the GoitProps clauses; an evaluation is a step on which at least one clause of this property had a true antecedent; distinct = distinct (command line, pre-state digest) pairs among those",
			[]string{"projector (independent decoders of the documented on-disk formats, Go crypto/sha1 + compress/zlib) is trusted", "stdout parsers for status/ls-files/reflog/log/branch/rev-parse/cat-file", "SHA-1 and zlib are uninterpreted in TLA+ (ids are looked up, never computed)"})
	}
}

func init() {
	for _, id := range []string{"C02", "C03", "C04", "C05", "C06", "C07", "C08", "C09", "C10", "C11", "C12", "C13", "C14", "C17", "C18", "C20", "C01"} {
		plans[id] = functionalPlan(id, 96, 1600)
	}
}

func runReplayFS(rf *ReplayFile) int {
	scratch, _ := os.MkdirTemp(scratchBase(), "vreplay")
	defer os.RemoveAll(scratch)
	goit, err := buildGoit(scratch, false)
	if err != nil {
		fmt.Fprintln(os.Stderr, err)
		return 2
	}
	for _, c := range rf.Commands {
		fmt.Println("  ", c)
	}
	fmt.Println("  ", rf.Note)
	again, err := reexecFS(goit, rf, filepath.Join(scratch, "judge"))
	if err != nil {
		fmt.Fprintln(os.Stderr, err)
		return 2
	}
	if again {
		fmt.Printf("REPRODUCED property=%s clause=%s\n", rf.Property, rf.Clause)
		return 1
	}
	fmt.Println("not reproduced")
	return 0
}

// modelJobs: behaviours generated by TLC from the bounded instances of the operational model.
var modelFor = map[string][]string{
	"C01": {"Stage"}, "C02": {"Stage", "Dir"}, "C03": {"Refs", "DirBase"}, "C04": {"Dir", "DirBase", "Stage"}, "C05": {"Stage", "DirBase"},
	"C06": {"Dir", "DirBase"}, "C07": {"Stage", "DirBase"}, "C08": {"Refs", "DirBase"}, "C09": {"Dir", "DirBase"}, "C10": {"Refs"}, "C11": {"Refs"},
	"C12": {"Sign"}, "C13": {"DirBase", "Stage"}, "C14": {"Refs"}, "C17": {"Ignore", "Stage"}, "C18": {"Refs", "DirBase"}, "C20": {"Config"},
}

func modelJobs(cx *CheckCtx, id string) []Job {
	names := append([]string{}, modelFor[id]...)
	for i, name := range names {
		if cx.Tier == "thorough" {
			if _, err := os.Stat(filepath.Join(specDir(), "MC_"+name+"Deep.cfg")); err == nil {
				names[i] = name + "Deep"
			}
		}
	}
	// TLC runs (model check + edge emission) of the instances go in parallel
	res := make([][]Job, len(names))
	var wg sync.WaitGroup
	for i, name := range names {
		wg.Add(1)
		go func(i int, name string) {
			defer wg.Done()
			res[i] = tourJobs(cx, name, obsFor(id), 0)
		}(i, name)
	}
	var treeMS *ModelStats
	var treeErr error
	if id == "C05" || id == "C02" || id == "C07" || id == "C06" || id == "C08" {
		wg.Add(1)
		go func() {
			defer wg.Done()
			ms, err := runModelCheck(filepath.Join(cx.Scratch, "mc_Tree"), "Tree", 8, 20*time.Minute)
			os.RemoveAll(filepath.Join(cx.Scratch, "mc_Tree"))
			treeMS, treeErr = &ms, err
		}()
	}
	wg.Wait()
	if treeErr != nil {
		cx.InfraErr = append(cx.InfraErr, treeErr.Error())
	} else if treeMS != nil {
		cx.Models = append(cx.Models, *treeMS)
	}
	var jobs []Job
	for _, j := range res {
		jobs = append(jobs, j...)
	}
	return jobs
}

// treeUniverse is the path universe of spec/MC_Tree (GoitTree.tla checks the tree algebra on all its subsets up to size 5).
var treeUniverse = []string{"d/x", "d/y", "d-o", "d.c", "d0", "ad/x", "d x", "d x/y", "d/e/x", "d/e.x", "a", "é/ü"}

// treeSubsetJobs runs, for every subset of the universe up to maxSize, the fixed snapshot read-back scenario on the
// real binary: write, add, commit, edit all, commit, reset --mixed HEAD@{1}, (observations), remove all, commit
// (empty snapshot), reset --mixed HEAD@{0}.
func treeSubsetJobs(id string, maxSize int, obs ObsSpec) []Job {
	var subsets [][]string
	n := len(treeUniverse)
	for mask := 1; mask < 1<<n; mask++ {
		var s []string
		for i := 0; i < n; i++ {
			if mask&(1<<i) != 0 {
				s = append(s, treeUniverse[i])
			}
		}
		if len(s) > maxSize {
			continue
		}
		// "d x" (file) and "d x/y" cannot both exist in a working tree
		hasF, hasD := false, false
		for _, p := range s {
			hasF = hasF || p == "d x"
			hasD = hasD || p == "d x/y"
		}
		if hasF && hasD {
			continue
		}
		subsets = append(subsets, s)
	}
	var jobs []Job
	per := (len(subsets) + 31) / 32
	for i := 0; i < len(subsets); i += per {
		j := i + per
		if j > len(subsets) {
			j = len(subsets)
		}
		part := subsets[i:j]
		lo := i
		jobs = append(jobs, Job{Name: fmt.Sprintf("tree-subsets [%d..%d)", i, j), Make: func(goit string, c *Chunk, rng *rand.Rand) {
			for k, s := range part {
				sc := &Scenario{Name: fmt.Sprintf("subset#%d", lo+k), TZ: 540}
				sc.Steps = append(sc.Steps, initEvents()...)
				var paths []any
				for _, p := range s {
					sc.Steps = append(sc.Steps, M{"ev": "write", "p": EscS(p), "data": "v1 " + p})
					paths = append(paths, EscS(p))
				}
				sc.Steps = append(sc.Steps, M{"ev": "add", "paths": []any{"."}}, M{"ev": "commit", "msg": "one"})
				for _, p := range s {
					sc.Steps = append(sc.Steps, M{"ev": "write", "p": EscS(p), "data": "v2 " + p})
				}
				sc.Steps = append(sc.Steps, M{"ev": "add", "paths": paths}, M{"ev": "commit", "msg": "two"},
					M{"ev": "reset", "mode": "mixed", "arg": EscS("HEAD@{1}")},
					M{"ev": "reset", "mode": "hard", "arg": EscS("HEAD@{1}")},
					M{"ev": "rm", "paths": paths}, M{"ev": "commit", "msg": "empty"},
					M{"ev": "reset", "mode": "mixed", "arg": EscS("HEAD@{0}")},
					M{"ev": "reset", "mode": "hard", "arg": EscS("HEAD@{3}")})
				base, err := os.MkdirTemp(scratchBase(), "vsub")
				if err != nil {
					panic(err)
				}
				tr := runScenario(goit, base, c.T, sc, obs)
				c.Add(tr, 540)
				os.RemoveAll(base)
			}
		}})
	}
	return jobs
}

func fsPlan(id string) func(cx *CheckCtx) int {
	return func(cx *CheckCtx) int {
		mode := FSMode{Crash: id == "C15", Fault: id == "C16", Errnos: defaultErrnos, MaxPerCmd: 0}
		nRandom := 3
		if id == "C15" {
			nRandom = 8 // crash points are cheap (no re-execution of the command): more histories than for C16
		}
		if cx.Tier == "thorough" {
			mode.Errnos = thoroughErrnos
			mode.KillSample = 10
			nRandom = 120
			if id == "C15" {
				nRandom = 240
			}
		}
		stats := &fsStats{ByCmd: map[string]int{}}
		var smu sync.Mutex
		var jobs []Job
		for _, s := range loadScenarios(id) {
			s := s
			jobs = append(jobs, Job{Name: "fs-scenario " + s.Name, Make: func(goit string, c *Chunk, rng *rand.Rand) {
				st := &fsStats{ByCmd: map[string]int{}}
				var infra []string
				fsEnumerate(goit, c, s.Steps, nil, s.TZ, mode, rng, s.Name, st, &infra)
				smu.Lock()
				mergeStats(stats, st)
				cx.InfraErr = append(cx.InfraErr, infra...)
				smu.Unlock()
			}})
		}
		prof := baseProfile("fsrandom")
		prof.Steps = 25
		prof.Hostile = 3
		for i := 0; i < nRandom; i++ {
			i := i
			jobs = append(jobs, Job{Name: fmt.Sprintf("fs-random %d", i), Make: func(goit string, c *Chunk, rng *rand.Rand) {
				// first draw a history with the ordinary random driver, then re-execute it with enumeration
				base, _ := os.MkdirTemp(scratchBase(), "vfsr")
				T0 := NewTables()
				p := *prof
				tr := runRandom(goit, base, T0, &p, rng, fmt.Sprintf("fsr#%d", i))
				os.RemoveAll(base)
				st := &fsStats{ByCmd: map[string]int{}}
				var infra []string
				m := mode
				m.MaxPerCmd = 12
				fsEnumerate(goit, c, tr.Events, tr.Contents, tr.R.TZ, m, rng, tr.Label, st, &infra)
				smu.Lock()
				mergeStats(stats, st)
				cx.InfraErr = append(cx.InfraErr, infra...)
				smu.Unlock()
			}})
		}
		cx.runJobs(jobs, "GoitTrace")
		if id == "C15" {
			// the design-level protocol model: exhaustive TLC check, then conformance of the recorded runs with its plans
			if ms, err := runModelCheck(filepath.Join(cx.Scratch, "mc_FS"), "FS", 8, 20*time.Minute); err != nil {
				cx.InfraErr = append(cx.InfraErr, err.Error())
			} else {
				cx.Models = append(cx.Models, ms)
			}
			acc, rej, ex, err := protocolConformance(filepath.Join(cx.Scratch, "fsproto"), stats.Protocol)
			if err != nil {
				cx.InfraErr = append(cx.InfraErr, err.Error())
			}
			cx.Extra["protocol_conformance"] = M{"runs": len(stats.Protocol), "accepted": acc, "rejected": rej, "rejected_examples": ex}
			for _, e := range ex {
				fmt.Fprintln(os.Stderr, "MODEL-DRIFT (write protocol, information only):", e)
			}
		}
		cx.Extra["fs_cases"] = stats.CrashPoints + stats.FaultPoints
		cx.Extra["crash_points"] = stats.CrashPoints
		cx.Extra["commands_given_again_after_crash"] = stats.Retries
		cx.Extra["fault_points"] = stats.FaultPoints
		cx.Extra["fault_positions_unreached"] = stats.Unreached
		cx.Extra["faults_landed_on_another_call"] = stats.Moved
		cx.Extra["fault_runs_repeated_for_unreached_positions"] = stats.Retried
		cx.Extra["fault_positions_reached_by_path_restricted_tracing"] = stats.ByPath
		cx.Extra["commands_recorded"] = stats.Commands
		cx.Extra["positions_by_command"] = stats.ByCmd
		cx.Extra["real_kill_crosschecked"] = stats.KillChecked
		cx.Extra["real_kill_mismatch"] = stats.KillMismatch
		cx.Extra["recording_selfcheck_failures"] = stats.Drift
		if len(stats.Samples) > 0 {
			cx.Samples = stats.Samples
		}
		if stats.KillMismatch > 0 {
			cx.InfraErr = append(cx.InfraErr, fmt.Sprintf("%d materialised crash states differ from really killed runs", stats.KillMismatch))
		}
		what := "crash point = a prefix of the recorded file-system modifications of one command applied to a copy of the pre-state"
		if id == "C16" {
			what = "fault position = one recorded file-system call (open/create/read/readdir/write/mkdir/rename/remove) of one command made to fail by strace error injection"
		}
		return cx.finish("fault_enumeration",
			what+"; every position of every modifying command of the corpus (scenarios + seeded random histories) is enumerated; evaluations = positions judged by TLC against the GoitFSProps clauses; distinct = distinct (command line, pre-state digest, position) triples",
			[]string{"strace -f -y -xx reports the file-system calls faithfully; recording is self-checked (replaying all recorded modifications must reproduce the real post-state)", "kill between two modifications, not power loss: no reordering, no torn writes", "projector is trusted"})
	}
}

func mergeStats(a, b *fsStats) {
	a.CrashPoints += b.CrashPoints
	a.FaultPoints += b.FaultPoints
	a.Unreached += b.Unreached
	a.KillChecked += b.KillChecked
	a.KillMismatch += b.KillMismatch
	a.Commands += b.Commands
	a.Drift += b.Drift
	a.Retries += b.Retries
	a.Moved += b.Moved
	a.Retried += b.Retried
	a.ByPath += b.ByPath
	a.Protocol = append(a.Protocol, b.Protocol...)
	for k, v := range b.ByCmd {
		a.ByCmd[k] += v
	}
	for _, s := range b.Samples {
		if len(a.Samples) < 6 {
			a.Samples = append(a.Samples, s)
		}
	}
}

func init() {
	plans["C15"] = fsPlan("C15")
	plans["C16"] = fsPlan("C16")
}

func damagePlan(cx *CheckCtx) int {
	thorough := cx.Tier == "thorough"
	stats := &dmgStats{ByClass: map[string]int{}, ByKind: map[string]int{}}
	var smu sync.Mutex
	var jobs []Job
	scs := loadScenarios("C19")
	nRandom := 2
	if thorough {
		nRandom = 5
	}
	const parts = 5 // the mutations of one repository are spread over this many jobs
	addPart := func(name string, evs func(goit string, rng *rand.Rand) ([]M, map[string][]byte, int), part int, seed int64) {
		jobs = append(jobs, Job{Name: fmt.Sprintf("%s part %d", name, part), Make: func(goit string, c *Chunk, _ *rand.Rand) {
			rng := rand.New(rand.NewSource(seed)) // the same seed in every part: the same history and the same mutation list
			e, cont, tz := evs(goit, rng)
			st := &dmgStats{ByClass: map[string]int{}, ByKind: map[string]int{}}
			var infra []string
			damageEnumerate(goit, c, e, cont, tz, rng, name, thorough, st, &infra, part, parts)
			smu.Lock()
			stats.Cases += st.Cases
			for k, v := range st.ByClass {
				stats.ByClass[k] += v
			}
			for k, v := range st.ByKind {
				stats.ByKind[k] += v
			}
			if st.MaxRSSKB > stats.MaxRSSKB {
				stats.MaxRSSKB = st.MaxRSSKB
			}
			for _, s := range st.Samples {
				if len(stats.Samples) < 6 {
					stats.Samples = append(stats.Samples, s)
				}
			}
			cx.InfraErr = append(cx.InfraErr, infra...)
			smu.Unlock()
		}})
	}
	nth := int64(0)
	add := func(name string, evs func(goit string, rng *rand.Rand) ([]M, map[string][]byte, int)) {
		nth++
		for part := 0; part < parts; part++ {
			addPart(name, evs, part, cx.Seed*7919+nth)
		}
	}
	for _, s := range scs {
		s := s
		add("damage-scenario "+s.Name, func(goit string, rng *rand.Rand) ([]M, map[string][]byte, int) { return s.Steps, nil, s.TZ })
	}
	prof := baseProfile("dmgrandom")
	prof.Steps = 18
	prof.Hostile = 0
	withW(prof, "remove", 1, "rmdir", 0, "reset", 2, "rm", 1)
	for i := 0; i < nRandom; i++ {
		i := i
		add(fmt.Sprintf("damage-random %d", i), func(goit string, rng *rand.Rand) ([]M, map[string][]byte, int) {
			base, _ := os.MkdirTemp(scratchBase(), "vdr")
			defer os.RemoveAll(base)
			p := *prof
			tr := runRandom(goit, base, NewTables(), &p, rng, fmt.Sprintf("dmg#%d", i))
			return tr.Events, tr.Contents, tr.R.TZ
		})
	}
	cx.runJobs(jobs, "GoitTrace")
	cx.Extra["fs_cases"] = stats.Cases
	cx.Extra["damage_cases"] = stats.Cases
	cx.Extra["by_file_class"] = stats.ByClass
	cx.Extra["by_mutation"] = stats.ByKind
	cx.Extra["max_rss_kb"] = stats.MaxRSSKB
	if len(stats.Samples) > 0 {
		cx.Samples = stats.Samples
	}
	return cx.finish("fault_enumeration",
		"damage case = one file of a repository Goit produced (object, index, HEAD, branch, config, reflog) with one mutation: every truncation, every single-byte deletion, single-byte substitutions, swap of two object files, generator-made arbitrary bytes (exhaustive over offsets for files up to the tier's budget, seeded sample beyond); on every damaged repository all read-only commands, cat-file, restore and reset --hard are run; evaluations = damage cases judged by TLC against C19_Total / C19_NoWrongData",
		[]string{"arbitrary bytes come from grammar-aware and random generators, not from coverage-guided fuzzing (outside this technique family)", "allocation guard = max RSS of the process under 1 GiB, hang guard = 5 s timeout", "projector is trusted"})
}

func init() {
	plans["C19"] = damagePlan
}

// protocolConformance has TLC (GoitFSTrace) decide, for every recorded successful run, whether its abstract
// operation sequence is in the language of the command's plan in GoitFS.tla.
func protocolConformance(dir string, runs []M) (int, int, []string, error) {
	if len(runs) == 0 {
		return 0, 0, nil, nil
	}
	os.MkdirAll(dir, 0o777)
	defer os.RemoveAll(dir)
	if err := linkSpecs(dir); err != nil {
		return 0, 0, nil, err
	}
	if err := writeNdjson(filepath.Join(dir, "fsops.ndjson"), runs); err != nil {
		return 0, 0, nil, err
	}
	cmd := tlcCmd(dir, "3g", "-workers", "1", "-config", "GoitFSTrace.cfg", "GoitFSTrace.tla")
	out, err := cmd.CombinedOutput()
	txt := string(out)
	if !strings.Contains(txt, "Model checking completed. No error has been found.") {
		if len(txt) > 1200 {
			txt = txt[len(txt)-1200:]
		}
		return 0, 0, nil, fmt.Errorf("GoitFSTrace failed (%v): %s", err, txt)
	}
	acc, rej := 0, 0
	var ex []string
	for _, ln := range strings.Split(txt, "\n") {
		if !strings.HasPrefix(ln, "\"{") {
			continue
		}
		s, uerr := strconv.Unquote(ln)
		if uerr != nil {
			continue
		}
		var rec struct {
			K   string `json:"k"`
			I   int    `json:"i"`
			Cmd string `json:"cmd"`
			Ok  bool   `json:"ok"`
		}
		if json.Unmarshal([]byte(s), &rec) != nil || rec.K != "P" {
			continue
		}
		if rec.Ok {
			acc++
		} else {
			rej++
			if len(ex) < 5 && rec.I >= 1 && rec.I <= len(runs) {
				ex = append(ex, fmt.Sprintf("%v: %v", runs[rec.I-1]["line"], runs[rec.I-1]["ops"]))
			}
		}
	}
	return acc, rej, ex, nil
}
