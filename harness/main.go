package main

import (
	"encoding/json"
	"fmt"
	"math/rand"
	"os"
	"os/exec"
	"path/filepath"
	"strconv"
)

func repoDir() string {
	if v := os.Getenv("VERIF_REPO"); v != "" {
		return v
	}
	return "/repo"
}

func verifDir() string {
	if v := os.Getenv("VERIF_DIR"); v != "" {
		return v
	}
	exe, err := os.Executable()
	if err == nil {
		d := filepath.Dir(filepath.Dir(filepath.Dir(exe)))
		if _, err := os.Stat(filepath.Join(d, "spec")); err == nil {
			return d
		}
	}
	return "/verif"
}

func seed() int64 {
	if v := os.Getenv("VERIF_SEED"); v != "" {
		if n, err := strconv.ParseInt(v, 10, 64); err == nil {
			return n
		}
	}
	return 1
}

// buildGoit builds the CLI from the current working tree of the repository into dir.
func buildGoit(dir string, cover bool) (string, error) {
	out := filepath.Join(dir, "goit")
	args := []string{"build", "-o", out}
	if cover {
		args = append(args, "-cover")
	}
	args = append(args, ".")
	cmd := exec.Command("go", args...)
	cmd.Dir = repoDir()
	cmd.Env = append(os.Environ(), "GOFLAGS=-mod=mod", "GOPROXY=off", "GOSUMDB=off", "GOTOOLCHAIN=local", "CGO_ENABLED=0")
	b, err := cmd.CombinedOutput()
	if err != nil {
		return "", fmt.Errorf("go build failed: %v\n%s", err, b)
	}
	return out, nil
}

func main() {
	if len(os.Args) < 2 {
		fmt.Fprintln(os.Stderr, "usage: verif check <ID> <quick|thorough> | replay <file> | demo <scenario.json> <outdir>")
		os.Exit(2)
	}
	switch os.Args[1] {
	case "check":
		if len(os.Args) < 4 {
			fmt.Fprintln(os.Stderr, "usage: verif check <ID> <quick|thorough>")
			os.Exit(2)
		}
		os.Exit(runCheck(os.Args[2], os.Args[3]))
	case "replay":
		os.Exit(runReplay(os.Args[2]))
	case "selftest":
		os.Exit(runSelfTest())
	case "gen":
		// gen <prop> <outdir> <ntraces>: write one chunk of random traces (profiling aid)
		os.MkdirAll(os.Args[3], 0o777)
		goit, err := buildGoit(os.Args[3], false)
		if err != nil {
			fmt.Fprintln(os.Stderr, err)
			os.Exit(2)
		}
		n, _ := strconv.Atoi(os.Args[4])
		c := NewChunk(os.Args[3])
		jobs := randomJobs(os.Args[2], n, n, 1.0)
		jobs[0].Make(goit, c, rand.New(rand.NewSource(seed())))
		writeNdjson(filepath.Join(os.Args[3], "trace.ndjson"), c.Lines)
		writeJson(filepath.Join(os.Args[3], "tables.json"), c.T.Dump())
		linkSpecs(os.Args[3])
		fmt.Println("lines", len(c.Lines))
		os.Exit(0)
	case "demo":
		os.Exit(runDemo(os.Args[2], os.Args[3]))
	default:
		fmt.Fprintln(os.Stderr, "unknown subcommand")
		os.Exit(2)
	}
}

func runDemo(scn, outdir string) int {
	os.MkdirAll(outdir, 0o777)
	goit, err := buildGoit(outdir, false)
	if err != nil {
		fmt.Fprintln(os.Stderr, err)
		return 2
	}
	b, err := os.ReadFile(scn)
	if err != nil {
		fmt.Fprintln(os.Stderr, err)
		return 2
	}
	var s Scenario
	if err := json.Unmarshal(b, &s); err != nil {
		fmt.Fprintln(os.Stderr, err)
		return 2
	}
	T := NewTables()
	base, _ := os.MkdirTemp(scratchBase(), "vdemo")
	defer os.RemoveAll(base)
	obs := allObs()
	if pid := os.Getenv("VERIF_DEMO_PROP"); pid != "" {
		obs = obsFor(pid) // observe exactly what the check of that property observes
	}
	tr := runScenario(goit, base, T, &s, obs)
	writeNdjson(filepath.Join(outdir, "trace.ndjson"), tr.Lines)
	writeJson(filepath.Join(outdir, "tables.json"), T.Dump())
	fmt.Println("lines", len(tr.Lines))
	return 0
}

func allObs() ObsSpec {
	return ObsSpec{Status: true, Ls: true, Reflog: true, Branches: true, RevParse: true, Log: true, CatFile: true, Hash: true}
}
