package main

import (
	"bufio"
	"encoding/json"
	"fmt"
	"os"
	"os/exec"
	"path/filepath"
	"strconv"
	"strings"
	"time"
)

// Chunk is a set of traces judged by one TLC run; all traces share one Tables.
type Chunk struct {
	Dir    string
	T      *Tables
	Lines  []M
	Traces []*TraceRef
	Tour   *TourInfo
}

// TraceRef keeps what is needed to attribute a failing line to a replayable execution.
type TraceRef struct {
	Label    string
	First    int // first line (1-based) of this trace in the chunk
	Last     int
	Events   []M
	Contents map[string][]byte
	TZ0      int
	StepLine []int // chunk line number of the step line of event i
	ObsSpec  ObsSpec
	Snapshot map[string][]byte // damage traces: the undamaged repository
}

func NewChunk(dir string) *Chunk {
	os.MkdirAll(dir, 0o777)
	return &Chunk{Dir: dir, T: NewTables()}
}

// Add appends a finished trace, rebasing its line references.
func (c *Chunk) Add(tr *Trace, tz0 int) {
	off := len(c.Lines)
	ref := &TraceRef{Label: tr.Label, First: off + 1, Events: tr.Events, Contents: tr.Contents, TZ0: tz0, ObsSpec: tr.Obs}
	for _, l := range tr.Lines {
		if l["kind"] == "step" {
			l["prel"] = l["prel"].(int) + off
			l["postl"] = l["postl"].(int) + off
			ref.StepLine = append(ref.StepLine, len(c.Lines)+1)
		}
		c.Lines = append(c.Lines, l)
	}
	ref.Last = len(c.Lines)
	c.Traces = append(c.Traces, ref)
	tr.Lines = nil
}

type JFail struct {
	Line   int      `json:"i"`
	Clause string   `json:"c"`
	Props  []string `json:"p"`
	KF     []string `json:"kf"`
}

type JudgeResult struct {
	Fails     []JFail
	Hits      map[int][]string // line -> properties hit
	Counts    map[string]int   // clause -> steps where antecedent held
	Steps     int
	TLCStates int
	Err       error
	Wall      float64
}

func specDir() string { return filepath.Join(verifDir(), "spec") }

func linkSpecs(dir string) error {
	ents, err := os.ReadDir(specDir())
	if err != nil {
		return err
	}
	for _, e := range ents {
		if strings.HasSuffix(e.Name(), ".tla") || strings.HasSuffix(e.Name(), ".cfg") {
			b, err := os.ReadFile(filepath.Join(specDir(), e.Name()))
			if err != nil {
				return err
			}
			if err := os.WriteFile(filepath.Join(dir, e.Name()), b, 0o666); err != nil {
				return err
			}
		}
	}
	return nil
}

func tlcCmd(dir string, xmx string, args ...string) *exec.Cmd {
	a := []string{"-Dfile.encoding=UTF-8", "-Xss64m", "-Xmx" + xmx, "-XX:+UseSerialGC"}
	if xmx == "3g" {
		// trace judging: short runs, the optimising JIT costs more than it gains
		a = append(a, "-XX:TieredStopAtLevel=1")
	}
	a = append(a,
		"-cp", "/opt/veriftools/tla/tla2tools.jar:/opt/veriftools/tla/CommunityModules-deps.jar", "tlc2.TLC",
		"-noGenerateSpecTE", "-metadir", filepath.Join(dir, "tlcmeta"))
	a = append(a, args...)
	cmd := exec.Command("java", a...)
	cmd.Dir = dir
	return cmd
}

// Judge writes the chunk files and runs the TLC trace judge (module mod, e.g. GoitTrace) on them.
func (c *Chunk) Judge(mod string, timeout time.Duration) *JudgeResult {
	return c.JudgeWant(mod, timeout, []string{"ALL"})
}

// JudgeWant evaluates only the clauses of the wanted properties ("ALL" = every clause).
func (c *Chunk) JudgeWant(mod string, timeout time.Duration, want []string) *JudgeResult {
	t0 := time.Now()
	res := &JudgeResult{Hits: map[int][]string{}, Counts: map[string]int{}}
	if err := writeNdjson(filepath.Join(c.Dir, "trace.ndjson"), c.Lines); err != nil {
		res.Err = err
		return res
	}
	if err := writeJson(filepath.Join(c.Dir, "tables.json"), c.T.Dump()); err != nil {
		res.Err = err
		return res
	}
	if err := linkSpecs(c.Dir); err != nil {
		res.Err = err
		return res
	}
	for _, l := range c.Lines {
		if l["kind"] == "step" {
			res.Steps++
		}
	}
	{
		q := []string{}
		for _, w := range want {
			q = append(q, strconv.Quote(w))
		}
		cfg := "SPECIFICATION TraceSpec\nPOSTCONDITION TraceAccepted\nCHECK_DEADLOCK FALSE\nCONSTANT Want = {" + strings.Join(q, ", ") + "}\n"
		os.WriteFile(filepath.Join(c.Dir, mod+".cfg"), []byte(cfg), 0o666)
	}
	cmd := tlcCmd(c.Dir, "3g", "-workers", "1", "-config", mod+".cfg", mod+".tla")
	out, err := os.Create(filepath.Join(c.Dir, "tlc.out"))
	if err != nil {
		res.Err = err
		return res
	}
	cmd.Stdout = out
	cmd.Stderr = out
	if err := cmd.Start(); err != nil {
		res.Err = err
		return res
	}
	done := make(chan error, 1)
	go func() { done <- cmd.Wait() }()
	select {
	case err = <-done:
	case <-time.After(timeout):
		cmd.Process.Kill()
		<-done
		res.Err = fmt.Errorf("TLC timeout after %v in %s", timeout, c.Dir)
		return res
	}
	out.Close()
	f, _ := os.Open(filepath.Join(c.Dir, "tlc.out"))
	defer f.Close()
	sc := bufio.NewScanner(f)
	sc.Buffer(make([]byte, 1<<20), 1<<26)
	okDone := false
	var errLines []string
	for sc.Scan() {
		ln := sc.Text()
		if strings.HasPrefix(ln, "\"{") {
			s, uerr := strconv.Unquote(ln)
			if uerr != nil {
				continue
			}
			var rec struct {
				K  string          `json:"k"`
				I  int             `json:"i"`
				C  json.RawMessage `json:"c"`
				P  []string        `json:"p"`
				KF []string        `json:"kf"`
			}
			if json.Unmarshal([]byte(s), &rec) != nil {
				continue
			}
			switch rec.K {
			case "F":
				var cl string
				json.Unmarshal(rec.C, &cl)
				res.Fails = append(res.Fails, JFail{Line: rec.I, Clause: cl, Props: rec.P, KF: rec.KF})
			case "H":
				res.Hits[rec.I] = rec.P
			case "CNT":
				var m map[string]int
				if json.Unmarshal(rec.C, &m) == nil {
					for k, v := range m {
						res.Counts[k] += v
					}
				}
			}
			continue
		}
		if strings.Contains(ln, "Model checking completed. No error has been found.") {
			okDone = true
		}
		if strings.HasPrefix(ln, "Error:") || strings.Contains(ln, "***Parse Error***") || strings.Contains(ln, "was violated") || strings.Contains(ln, "Exception") {
			errLines = append(errLines, ln)
		}
		if strings.Contains(ln, "states generated") && strings.Contains(ln, "distinct states found") {
			fmt.Sscanf(ln, "%d states generated", &res.TLCStates)
		}
	}
	if !okDone || len(errLines) > 0 || err != nil {
		res.Err = fmt.Errorf("TLC judge failed in %s: %v %s", c.Dir, err, strings.Join(errLines, " | "))
	}
	res.Wall = time.Since(t0).Seconds()
	return res
}

// locate maps a chunk line to (trace, event index).
func (c *Chunk) locate(line int) (*TraceRef, int) {
	if c.Tour != nil {
		if _, ok := c.Tour.Event[line]; ok {
			var path []M
			for l := line; l != 0; l = c.Tour.Parent[l] {
				path = append([]M{c.Tour.Event[l]}, path...)
			}
			root := []M{}
			for _, e := range c.Tour.Root {
				e = cloneEv(e)
				annotate(c.T, e)
				root = append(root, e)
			}
			evs := append(root, path...)
			contents := map[string][]byte{}
			for _, b := range c.Tour.Conc {
				contents[c.T.Content(b)] = b
			}
			return &TraceRef{Label: "tour", Events: evs, Contents: contents, TZ0: c.Tour.TZ, ObsSpec: c.Tour.Obs}, len(evs) - 1
		}
	}
	for _, tr := range c.Traces {
		if line >= tr.First && line <= tr.Last {
			for i, sl := range tr.StepLine {
				if sl == line {
					return tr, i
				}
			}
		}
	}
	return nil, -1
}
