package main

import (
	"crypto/sha1"
	"encoding/hex"
	"fmt"
	"strings"
)

// Esc turns arbitrary bytes into an ASCII key that TLC can carry as a string:
// bytes 0x21..0x7e except '%', '"' and '\\' stay, everything else becomes %XX.
// '/' is kept, so the key of a path is the keys of its components joined by '/'.
func Esc(b []byte) string {
	var sb strings.Builder
	for _, c := range b {
		if c > 0x20 && c < 0x7f && c != '%' && c != '"' && c != '\\' {
			sb.WriteByte(c)
		} else {
			fmt.Fprintf(&sb, "%%%02X", c)
		}
	}
	return sb.String()
}

func EscS(s string) string { return Esc([]byte(s)) }

func Unesc(k string) []byte {
	out := make([]byte, 0, len(k))
	for i := 0; i < len(k); i++ {
		if k[i] == '%' && i+2 < len(k) {
			var v int
			if _, err := fmt.Sscanf(k[i+1:i+3], "%02X", &v); err == nil {
				out = append(out, byte(v))
				i += 2
				continue
			}
		}
		out = append(out, k[i])
	}
	return out
}

func bytesToInts(b []byte) []int {
	r := make([]int, len(b))
	for i, c := range b {
		r[i] = int(c)
	}
	return r
}

func sha1hex(b []byte) string {
	h := sha1.Sum(b)
	return hex.EncodeToString(h[:])
}

// gitId computes the id Git assigns: SHA-1 of "<kind> <len>\0<bytes>".
func gitId(kind string, data []byte) string {
	h := sha1.New()
	fmt.Fprintf(h, "%s %d\x00", kind, len(data))
	h.Write(data)
	return hex.EncodeToString(h.Sum(nil))
}

func isHex40(s string) bool {
	if len(s) != 40 {
		return false
	}
	for i := 0; i < 40; i++ {
		c := s[i]
		if !((c >= '0' && c <= '9') || (c >= 'a' && c <= 'f')) {
			return false
		}
	}
	return true
}
