package main

// The projector: decodes an on-disk Goit repository with decoders written from
// the documented formats. It shares no code with Goit. It reports what is on
// disk, including malformed things, instead of failing.

import (
	"bytes"
	"compress/zlib"
	"encoding/binary"
	"encoding/hex"
	"fmt"
	"io"
	"os"
	"path/filepath"
	"regexp"
	"sort"
	"strconv"
	"strings"
	"sync"
)

type M = map[string]any

// Tables holds the interned side tables shared by all states of one trace file.
type Tables struct {
	mu       sync.Mutex
	Names    map[string][]int // key -> bytes
	Contents map[string]M     // content token -> {len, blobid}
	Objects  map[string]M     // object token -> decoded object
	rawCache map[string]string
	Blobs    map[string][]byte // content token -> bytes (kept for replay files; bounded)
}

func NewTables() *Tables {
	return &Tables{Names: map[string][]int{}, Contents: map[string]M{}, Objects: map[string]M{}, rawCache: map[string]string{}, Blobs: map[string][]byte{}}
}

func (t *Tables) Name(b []byte) string {
	k := Esc(b)
	t.mu.Lock()
	if _, ok := t.Names[k]; !ok {
		t.Names[k] = bytesToInts(b)
	}
	t.mu.Unlock()
	return k
}

// PathName registers a path and all its components and directory prefixes.
func (t *Tables) PathName(b []byte) string {
	k := t.Name(b)
	parts := bytes.Split(b, []byte("/"))
	for i, p := range parts {
		t.Name(p)
		if i > 0 {
			t.Name(bytes.Join(parts[:i], []byte("/")))
		}
	}
	return k
}

func (t *Tables) Content(b []byte) string {
	tok := "c" + sha1hex(b)[:16]
	t.mu.Lock()
	if _, ok := t.Contents[tok]; !ok {
		t.Contents[tok] = M{"len": len(b), "blobid": gitId("blob", b)}
		if len(b) <= 1<<16 {
			t.Blobs[tok] = append([]byte(nil), b...)
		}
	}
	t.mu.Unlock()
	return tok
}

var signRe = regexp.MustCompile(`^(.*) <([^<>]*)> ([0-9]+) ([+-])([0-9]{2})([0-9]{2})$`)

func parseSign(line []byte) M {
	m := signRe.FindSubmatch(line)
	if m == nil {
		return M{"ok": false, "raw": Esc(line), "name": "", "email": "", "secs": 0, "off": 0, "offs": ""}
	}
	secs, err := strconv.ParseInt(string(m[3]), 10, 64)
	ok := err == nil && secs < 1<<31
	if !ok {
		secs = 0
	}
	hh, _ := strconv.Atoi(string(m[5]))
	mm, _ := strconv.Atoi(string(m[6]))
	if mm >= 60 {
		ok = false
	}
	off := hh*60 + mm
	if string(m[4]) == "-" {
		off = -off
	}
	return M{"ok": ok, "raw": Esc(line), "name": Esc(m[1]), "email": Esc(m[2]), "secs": int(secs), "off": off,
		"offs": string(m[4]) + string(m[5]) + string(m[6])}
}

// decodeTree parses the strict Git tree grammar: (<mode> SP <name> NUL <20 bytes>)*.
func (t *Tables) decodeTree(data []byte) M {
	ents := []any{}
	ok := true
	for len(data) > 0 {
		sp := bytes.IndexByte(data, ' ')
		if sp <= 0 {
			ok = false
			break
		}
		mode := string(data[:sp])
		rest := data[sp+1:]
		nul := bytes.IndexByte(rest, 0)
		if nul <= 0 || len(rest) < nul+1+20 {
			ok = false
			break
		}
		name := rest[:nul]
		id := hex.EncodeToString(rest[nul+1 : nul+21])
		for _, c := range []byte(mode) {
			if c < '0' || c > '7' {
				ok = false
			}
		}
		if bytes.IndexByte(name, '/') >= 0 {
			ok = false
		}
		ents = append(ents, M{"m": mode, "n": t.Name(name), "id": id})
		data = rest[nul+21:]
	}
	return M{"k": "tree", "ok": ok, "ents": ents}
}

func (t *Tables) decodeCommit(data []byte) M {
	full := data
	res := M{"k": "commit", "ok": false, "tree": "", "parents": []any{}, "author": parseSign(nil), "committer": parseSign(nil), "msg": "", "nl": false, "raw": "", "d": t.Content(data)}
	sep := bytes.Index(data, []byte("\n\n"))
	if sep < 0 {
		return res
	}
	hdr := bytes.Split(data[:sep], []byte("\n"))
	msg := data[sep+2:]
	ok := true
	stage := 0 // 0 tree, 1 parents, 2 author, 3 committer, 4 done
	parents := []any{}
	for _, ln := range hdr {
		switch {
		case stage == 0 && bytes.HasPrefix(ln, []byte("tree ")) && isHex40(string(ln[5:])):
			res["tree"] = string(ln[5:])
			stage = 1
		case stage == 1 && bytes.HasPrefix(ln, []byte("parent ")) && isHex40(string(ln[7:])):
			parents = append(parents, string(ln[7:]))
		case stage == 1 && bytes.HasPrefix(ln, []byte("author ")):
			res["author"] = parseSign(ln[7:])
			stage = 3
		case stage == 3 && bytes.HasPrefix(ln, []byte("committer ")):
			res["committer"] = parseSign(ln[10:])
			stage = 4
		default:
			ok = false
		}
	}
	if stage != 4 {
		ok = false
	}
	res["parents"] = parents
	if len(msg) > 0 && msg[len(msg)-1] == '\n' {
		res["nl"] = true
		msg = msg[:len(msg)-1]
	}
	res["msg"] = Esc(msg)
	res["ok"] = ok
	res["d"] = t.Content(full)
	return res
}

// decodeObjectFile inflates and classifies one object file. id is the name it is stored under.
func (t *Tables) decodeObjectFile(id string, raw []byte) string {
	key := id + ":" + sha1hex(raw)
	t.mu.Lock()
	if tok, ok := t.rawCache[key]; ok {
		t.mu.Unlock()
		return tok
	}
	t.mu.Unlock()
	tok, obj := t.decodeObject(id, raw)
	t.mu.Lock()
	t.rawCache[key] = tok
	if _, ok := t.Objects[tok]; !ok {
		t.Objects[tok] = obj
	}
	t.mu.Unlock()
	return tok
}

func (t *Tables) decodeObject(id string, raw []byte) (string, M) {
	bad := func(why string) (string, M) {
		return "bad_" + why + "_" + sha1hex(raw)[:12], M{"k": "bad", "why": why}
	}
	zr, err := zlib.NewReader(bytes.NewReader(raw))
	if err != nil {
		return bad("zlib")
	}
	full, err := io.ReadAll(io.LimitReader(zr, 1<<28))
	if err != nil {
		return bad("zlib")
	}
	nul := bytes.IndexByte(full, 0)
	if nul < 0 {
		return bad("header")
	}
	hdr := string(full[:nul])
	sp := strings.IndexByte(hdr, ' ')
	if sp < 0 {
		return bad("header")
	}
	kind, lens := hdr[:sp], hdr[sp+1:]
	n, err := strconv.Atoi(lens)
	if err != nil || strconv.Itoa(n) != lens {
		return bad("header")
	}
	data := full[nul+1:]
	if n != len(data) {
		return bad("length")
	}
	if sha1hex(full) != id {
		return bad("name")
	}
	tok := "o" + id[:16]
	switch kind {
	case "blob":
		return tok, M{"k": "blob", "d": t.Content(data)}
	case "tree":
		return tok, t.decodeTree(data)
	case "commit":
		return tok, t.decodeCommit(data)
	default:
		return bad("kind")
	}
}

var logRe = regexp.MustCompile(`^([0-9a-f]{40}) ([0-9a-f]{40}) (.*) <([^<>]*)> ([0-9]+) ([+-][0-9+-]{4,6})\t([a-z]+): (.*)$`) // (the zone field is taken as it is: Goit writes "-02-30" for -02:30 there)

func parseLog(data []byte) []any {
	out := []any{}
	if len(data) == 0 {
		return out
	}
	lines := strings.Split(string(data), "\n")
	if lines[len(lines)-1] == "" {
		lines = lines[:len(lines)-1]
	}
	for _, ln := range lines {
		m := logRe.FindStringSubmatch(ln)
		if m == nil {
			out = append(out, M{"ok": false, "raw": EscS(ln), "from": "", "to": "", "kind": "", "msg": ""})
			continue
		}
		out = append(out, M{"ok": true, "raw": "", "from": m[1], "to": m[2], "kind": m[7], "msg": EscS(m[8])})
	}
	return out
}

// parseConfig: "[section]" lines and "\tkey = value" lines, value = everything after the first " = ".
func parseConfig(path string) M {
	res := M{"present": false, "ok": true, "sec": M{}}
	b, err := os.ReadFile(path)
	if err != nil {
		return res
	}
	res["present"] = true
	sec := M{}
	cur := ""
	ok := true
	for _, ln := range strings.Split(string(b), "\n") {
		if ln == "" {
			continue
		}
		if strings.HasPrefix(ln, "[") && strings.HasSuffix(ln, "]") && len(ln) > 2 {
			cur = EscS(ln[1 : len(ln)-1])
			if _, ok := sec[cur]; !ok {
				sec[cur] = M{}
			}
			continue
		}
		body := strings.TrimPrefix(ln, "\t")
		i := strings.Index(body, " = ")
		if i <= 0 || cur == "" {
			ok = false
			continue
		}
		sec[cur].(M)[EscS(body[:i])] = EscS(body[i+3:])
	}
	res["ok"] = ok
	res["sec"] = sec
	return res
}

func (t *Tables) parseIndex(path string) M {
	res := M{"present": false, "ok": true, "count": 0, "ents": []any{}, "extra": 0, "version": 0}
	b, err := os.ReadFile(path)
	if err != nil {
		return res
	}
	res["present"] = true
	if len(b) < 12 || string(b[:4]) != "DIRC" {
		res["ok"] = false
		return res
	}
	res["version"] = int(binary.BigEndian.Uint32(b[4:8]))
	cnt := binary.BigEndian.Uint32(b[8:12])
	if cnt > 1<<20 {
		res["ok"] = false
		res["count"] = 1 << 20
		return res
	}
	res["count"] = int(cnt)
	p := b[12:]
	ents := []any{}
	ok := true
	for i := 0; i < int(cnt); i++ {
		if len(p) < 22 {
			ok = false
			break
		}
		id := hex.EncodeToString(p[:20])
		n := int(binary.BigEndian.Uint16(p[20:22]))
		if len(p) < 22+n {
			ok = false
			break
		}
		ents = append(ents, M{"p": t.PathName(p[22 : 22+n]), "id": id})
		p = p[22+n:]
	}
	res["ents"] = ents
	res["ok"] = ok
	res["extra"] = len(p)
	return res
}

// Project decodes the repository rooted at root (working tree + .goit) and the global config under home.
func (t *Tables) Project(root, home string) M {
	st := M{}
	goit := filepath.Join(root, ".goit")
	fi, err := os.Lstat(goit)
	st["repo"] = err == nil && fi.IsDir()

	// working tree
	wt := M{}
	dirs := []any{}
	var dg []string
	var walk func(dir string, rel []byte)
	walk = func(dir string, rel []byte) {
		ents, err := os.ReadDir(dir)
		if err != nil {
			return
		}
		for _, e := range ents {
			if len(rel) == 0 && e.Name() == ".goit" {
				continue
			}
			var r []byte
			if len(rel) == 0 {
				r = []byte(e.Name())
			} else {
				r = append(append(append([]byte{}, rel...), '/'), e.Name()...)
			}
			full := filepath.Join(dir, e.Name())
			if e.IsDir() {
				dirs = append(dirs, t.PathName(r))
				dg = append(dg, "D "+string(r))
				walk(full, r)
			} else if e.Type().IsRegular() || e.Type()&os.ModeSymlink != 0 {
				// (a symbolic link to a regular file is a file with the bytes every reader gets through it; a link to
				// anything else is not part of the abstract working tree)
				if e.Type()&os.ModeSymlink != 0 {
					if fi, err := os.Stat(full); err != nil || !fi.Mode().IsRegular() {
						continue
					}
				}
				b, err := os.ReadFile(full)
				if err != nil {
					b = nil
				}
				tok := t.Content(b)
				wt[t.PathName(r)] = tok
				dg = append(dg, "F "+string(r)+" "+tok)
			}
		}
	}
	walk(root, nil)
	st["wt"] = wt
	st["dirs"] = dirs

	// metadata files other than objects
	meta := M{}
	objs := M{}
	refs := M{}
	refsodd := []any{}
	if st["repo"].(bool) {
		filepath.Walk(goit, func(p string, info os.FileInfo, err error) error {
			if err != nil {
				return nil
			}
			rel, _ := filepath.Rel(goit, p)
			rel = filepath.ToSlash(rel)
			if rel == "." {
				return nil
			}
			if strings.HasPrefix(rel, "objects/") || rel == "objects" {
				if info.Mode().IsRegular() {
					parts := strings.Split(rel, "/")
					raw, _ := os.ReadFile(p)
					dg = append(dg, "O "+rel+" "+sha1hex(raw))
					if len(parts) == 3 && len(parts[1]) == 2 && len(parts[2]) == 38 && isHex40(parts[1]+parts[2]) {
						id := parts[1] + parts[2]
						objs[id] = t.decodeObjectFile(id, raw)
					} else {
						objs["odd:"+EscS(rel)] = t.decodeObjectFile("odd", raw)
					}
				}
				return nil
			}
			if info.IsDir() {
				dg = append(dg, "MD "+rel)
				if strings.HasPrefix(rel, "refs/heads/") {
					refsodd = append(refsodd, EscS(strings.TrimPrefix(rel, "refs/heads/")))
				}
				return nil
			}
			b, _ := os.ReadFile(p)
			tok := t.Content(b)
			meta[EscS(rel)] = tok
			dg = append(dg, "M "+rel+" "+tok)
			if strings.HasPrefix(rel, "refs/heads/") {
				nm := strings.TrimPrefix(rel, "refs/heads/")
				if strings.Contains(nm, "/") {
					refs[t.Name([]byte(nm))] = Esc(b)
				} else {
					refs[t.Name([]byte(nm))] = Esc(b)
				}
			}
			return nil
		})
	}
	st["meta"] = meta
	st["objs"] = objs
	st["refs"] = refs
	st["refsodd"] = refsodd

	// HEAD
	head := M{"present": false, "ok": false, "branch": "", "raw": ""}
	if b, err := os.ReadFile(filepath.Join(goit, "HEAD")); err == nil {
		head["present"] = true
		head["raw"] = Esc(b)
		const pfx = "ref: refs/heads/"
		if bytes.HasPrefix(b, []byte(pfx)) && len(b) > len(pfx) && !bytes.ContainsAny(b[len(pfx):], "/\n") {
			head["ok"] = true
			head["branch"] = t.Name(b[len(pfx):])
		}
	}
	st["head"] = head
	st["idx"] = t.parseIndex(filepath.Join(goit, "index"))

	// reflogs
	hl, _ := os.ReadFile(filepath.Join(goit, "logs", "HEAD"))
	st["hlog"] = parseLog(hl)
	blog := M{}
	if ents, err := os.ReadDir(filepath.Join(goit, "logs", "refs", "heads")); err == nil {
		for _, e := range ents {
			if e.Type().IsRegular() {
				b, _ := os.ReadFile(filepath.Join(goit, "logs", "refs", "heads", e.Name()))
				blog[t.Name([]byte(e.Name()))] = parseLog(b)
			}
		}
	}
	st["blog"] = blog

	st["cfgl"] = parseConfig(filepath.Join(goit, "config"))
	st["cfgg"] = parseConfig(filepath.Join(home, ".goitconfig"))
	if b, err := os.ReadFile(filepath.Join(home, ".goitconfig")); err == nil {
		dg = append(dg, "G "+sha1hex(b))
	}

	ign := M{"present": false, "lines": []any{}}
	if b, err := os.ReadFile(filepath.Join(root, ".goitignore")); err == nil {
		ign["present"] = true
		ls := []any{}
		for _, ln := range strings.Split(string(b), "\n") {
			ln = strings.TrimSuffix(ln, "\r") // a line ends with LF or CRLF
			if ln != "" {
				ls = append(ls, t.Name([]byte(ln)))
			}
		}
		ign["lines"] = ls
	}
	st["ign"] = ign

	sort.Strings(dg)
	st["dg"] = sha1hex([]byte(strings.Join(dg, "\n")))[:20]
	return st
}

func (t *Tables) Dump() M {
	names := M{}
	for k, v := range t.Names {
		names[k] = v
	}
	cont := M{}
	for k, v := range t.Contents {
		cont[k] = v
	}
	objs := M{}
	for k, v := range t.Objects {
		objs[k] = v
	}
	return M{"names": names, "contents": cont, "objects": objs}
}

var _ = fmt.Sprintf
