package main

import (
	"bytes"
	"context"
	"encoding/binary"
	"fmt"
	"os"
	"os/exec"
	"path/filepath"
	"strings"
	"syscall"
	"time"
)

// Runner executes events (goit command lines and environment edits) in one scratch repository.
type Runner struct {
	Goit    string // path of the binary built from /repo
	Base    string // scratch dir containing root/ and home/
	Root    string
	Home    string
	TZ      int // minutes east of UTC
	T       *Tables
	Timeout time.Duration
	Wrap    func(argv []string) []string // optional: wrap command (strace)
}

func NewRunner(goit, base string, t *Tables) *Runner {
	r := &Runner{Goit: goit, Base: base, Root: filepath.Join(base, "root"), Home: filepath.Join(base, "home"), T: t, Timeout: 30 * time.Second}
	os.MkdirAll(r.Root, 0o777)
	os.MkdirAll(r.Home, 0o777)
	return r
}

// tzFile writes a minimal TZif v1 file with one fixed offset and returns its path.
func tzFile(dir string, offMin int) string {
	p := filepath.Join(dir, fmt.Sprintf("tz_%d", offMin))
	if _, err := os.Stat(p); err == nil {
		return p
	}
	abbr := []byte("VZ\x00")
	var b bytes.Buffer
	b.WriteString("TZif")
	b.WriteByte(0)
	b.Write(make([]byte, 15))
	for _, v := range []uint32{0, 0, 0, 0, 1, uint32(len(abbr))} {
		binary.Write(&b, binary.BigEndian, v)
	}
	binary.Write(&b, binary.BigEndian, int32(offMin*60))
	b.WriteByte(0)
	b.WriteByte(0)
	b.Write(abbr)
	os.WriteFile(p, b.Bytes(), 0o666)
	return p
}

type ExecResult struct {
	Res      string // ok | refused | crash | hang
	Exit     int
	Stdout   []byte
	Stderr   []byte
	T0, T1   int64
	MaxRSSKB int64
}

func (r *Runner) env() []string {
	return []string{
		"HOME=" + r.Home,
		"NO_COLOR=1",
		"TZ=" + tzFile(r.Base, r.TZ),
		"PATH=/usr/bin:/bin",
		"LANG=C.UTF-8",
	}
}

func (r *Runner) RunGoit(args ...string) ExecResult {
	return r.RunArgv(append([]string{r.Goit}, args...), nil)
}

func (r *Runner) RunArgv(argv []string, extraEnv []string) ExecResult {
	// "@ROOT@" in an argument stands for the absolute path of the working tree of this run (absolute spellings of
	// paths stay reproducible when a trace is re-executed in another scratch directory)
	if len(argv) > 1 {
		sub := make([]string, len(argv))
		copy(sub, argv)
		for i := 1; i < len(sub); i++ {
			if strings.Contains(sub[i], "@ROOT@") && !strings.HasPrefix(sub[i], "inject=") {
				sub[i] = strings.ReplaceAll(sub[i], "@ROOT@", r.Root)
			}
			if strings.Contains(sub[i], "@HEADID@") {
				// the id of the current commit (ids differ from run to run: they embed the time of the commit)
				id := "@HEADID@"
				if hb, err := os.ReadFile(filepath.Join(r.Root, ".goit", "HEAD")); err == nil {
					ref := strings.TrimSpace(strings.TrimPrefix(string(hb), "ref: "))
					if bb, err := os.ReadFile(filepath.Join(r.Root, ".goit", ref)); err == nil && len(strings.TrimSpace(string(bb))) == 40 {
						id = strings.TrimSpace(string(bb))
					}
				}
				sub[i] = strings.ReplaceAll(sub[i], "@HEADID@", id)
			}
		}
		argv = sub
	}
	if r.Wrap != nil {
		argv = r.Wrap(argv)
	}
	ctx, cancel := context.WithTimeout(context.Background(), r.Timeout)
	defer cancel()
	cmd := exec.CommandContext(ctx, argv[0], argv[1:]...)
	cmd.Dir = r.Root
	cmd.Env = append(r.env(), extraEnv...)
	var so, se bytes.Buffer
	cmd.Stdout = &so
	cmd.Stderr = &se
	cmd.Stdin = nil
	t0 := time.Now().Unix()
	err := cmd.Run()
	t1 := time.Now().Unix()
	res := ExecResult{Stdout: so.Bytes(), Stderr: se.Bytes(), T0: t0, T1: t1}
	if cmd.ProcessState != nil {
		if ru, ok := cmd.ProcessState.SysUsage().(*syscall.Rusage); ok {
			res.MaxRSSKB = ru.Maxrss
		}
	}
	if ctx.Err() == context.DeadlineExceeded {
		res.Res = "hang"
		res.Exit = -1
		return res
	}
	if err == nil {
		res.Res = "ok"
		return res
	}
	if ee, ok := err.(*exec.ExitError); ok {
		ws := ee.Sys().(syscall.WaitStatus)
		if ws.Signaled() {
			res.Res = "crash"
			res.Exit = 128 + int(ws.Signal())
			return res
		}
		res.Exit = ws.ExitStatus()
		if bytes.Contains(se.Bytes(), []byte("panic:")) || bytes.Contains(se.Bytes(), []byte("goroutine ")) || bytes.Contains(se.Bytes(), []byte("fatal error:")) {
			res.Res = "crash"
		} else {
			res.Res = "refused"
		}
		return res
	}
	res.Res = "hang"
	res.Exit = -2
	return res
}

// wtPath turns a path key into the file-system path inside the working tree.
func (r *Runner) wtPath(key string) string {
	return filepath.Join(r.Root, filepath.FromSlash(string(Unesc(key))))
}

// Argv renders an event as a goit command line; ok=false for environment events.
func Argv(ev M) ([]string, bool) {
	strs := func(k string) []string {
		out := []string{}
		if v, ok := ev[k]; ok {
			for _, x := range v.([]any) {
				out = append(out, string(Unesc(x.(string))))
			}
		}
		return out
	}
	s := func(k string) string {
		if v, ok := ev[k]; ok {
			return string(Unesc(v.(string)))
		}
		return ""
	}
	switch ev["ev"].(string) {
	case "init":
		return []string{"init"}, true
	case "add":
		return append([]string{"add"}, strs("paths")...), true
	case "rm":
		return append([]string{"rm"}, strs("paths")...), true
	case "commit":
		return []string{"commit", "-m", s("msg")}, true
	case "status":
		return []string{"status"}, true
	case "log":
		n := toInt(ev["n"])
		if n < 0 {
			return []string{"log"}, true
		}
		return []string{"log", "-n", fmt.Sprint(n)}, true
	case "reflog":
		return []string{"reflog"}, true
	case "branch":
		return []string{"branch", s("name")}, true
	case "branchd":
		return []string{"branch", "-d", s("name")}, true
	case "branchr":
		return []string{"branch", "-r", s("name")}, true
	case "branchlist":
		return []string{"branch", "--list"}, true
	case "switch":
		return []string{"switch", s("name")}, true
	case "switchc":
		return []string{"switch", "-c", s("name")}, true
	case "restore":
		return append([]string{"restore"}, strs("paths")...), true
	case "restores":
		return append([]string{"restore", "--staged"}, strs("paths")...), true
	case "reset":
		a := []string{"reset"}
		if m := s("mode"); m != "" && m != "default" {
			a = append(a, "--"+m)
		}
		return append(a, s("arg")), true
	case "config":
		a := []string{"config"}
		if b, ok := ev["global"].(bool); ok && b {
			a = append(a, "--global")
		}
		return append(a, s("key"), s("value")), true
	case "catfile":
		return []string{"cat-file", "-" + s("flag"), s("id")}, true
	case "lsfiles":
		return []string{"ls-files", "-s"}, true
	case "hashobject":
		return append([]string{"hash-object"}, strs("paths")...), true
	case "revparse":
		return append([]string{"rev-parse"}, strs("names")...), true
	case "updateref":
		return []string{"update-ref", s("ref"), s("id")}, true
	case "writetree":
		return []string{"write-tree"}, true
	case "version":
		return []string{"--version"}, true
	case "raw":
		return strs("argv"), true
	}
	return nil, false
}

func toInt(v any) int {
	switch x := v.(type) {
	case int:
		return x
	case int64:
		return int(x)
	case float64:
		return int(x)
	}
	return 0
}

// ApplyEnv performs an environment event. Returns false if the event is not an environment event.
func (r *Runner) ApplyEnv(ev M, contents map[string][]byte) (bool, error) {
	switch ev["ev"].(string) {
	case "write":
		p := r.wtPath(ev["p"].(string))
		if err := os.MkdirAll(filepath.Dir(p), 0o777); err != nil {
			return true, err
		}
		data, ok := contents[ev["c"].(string)]
		if !ok {
			return true, fmt.Errorf("unknown content %v", ev["c"])
		}
		if err := os.WriteFile(p, data, 0o666); err != nil {
			return true, err
		}
		if old, _ := ev["old"].(bool); old {
			// the file keeps an old modification time (cp -p, mv, extraction from an archive)
			tm := time.Now().Add(-2 * time.Hour)
			return true, os.Chtimes(p, tm, tm)
		}
		return true, nil
	case "remove":
		err := os.Remove(r.wtPath(ev["p"].(string)))
		if os.IsNotExist(err) {
			err = nil
		}
		return true, err
	case "rmdir":
		return true, os.RemoveAll(r.wtPath(ev["p"].(string)))
	case "mkdir":
		return true, os.MkdirAll(r.wtPath(ev["p"].(string)), 0o777)
	case "homelink":
		// the global configuration file is kept elsewhere (a dotfiles directory) and ~/.goitconfig is a symbolic link to it
		src := filepath.Join(r.Home, ".goitconfig")
		dst := filepath.Join(r.Home, "dotfiles", "goitconfig")
		if fi, err := os.Lstat(src); err == nil && fi.Mode().IsRegular() {
			if err := os.MkdirAll(filepath.Dir(dst), 0o777); err != nil {
				return true, err
			}
			if err := os.Rename(src, dst); err != nil {
				return true, err
			}
			return true, os.Symlink(filepath.Join("dotfiles", "goitconfig"), src)
		}
		return true, nil
	case "symlink":
		// ln -s: a relative symbolic link at <p> whose target is the working-tree file <to>
		p, to := r.wtPath(ev["p"].(string)), r.wtPath(ev["to"].(string))
		if err := os.MkdirAll(filepath.Dir(p), 0o777); err != nil {
			return true, err
		}
		rel, err := filepath.Rel(filepath.Dir(p), to)
		if err != nil {
			return true, err
		}
		os.Remove(p)
		return true, os.Symlink(rel, p)
	case "cpdir":
		// cp -r <p> <to>: two directories with identical contents (they share one tree id once committed)
		src, dst := r.wtPath(ev["p"].(string)), r.wtPath(ev["to"].(string))
		if fi, err := os.Stat(src); err != nil || !fi.IsDir() {
			return true, nil
		}
		if _, err := os.Stat(dst); err == nil {
			return true, nil
		}
		return true, copyTree(src, dst)
	case "dfswap":
		p := r.wtPath(ev["p"].(string))
		data := contents[ev["c"].(string)]
		if err := os.RemoveAll(p); err != nil {
			return true, err
		}
		if b, _ := ev["todir"].(bool); b {
			if err := os.MkdirAll(p, 0o777); err != nil {
				return true, err
			}
			return true, os.WriteFile(filepath.Join(p, "inner"), data, 0o666)
		}
		return true, os.WriteFile(p, data, 0o666)
	case "touch":
		p := r.wtPath(ev["p"].(string))
		tm := time.Now().Add(time.Duration(toInt(ev["dt"])) * time.Second)
		err := os.Chtimes(p, tm, tm)
		if os.IsNotExist(err) {
			err = nil
		}
		return true, err
	case "settz":
		r.TZ = toInt(ev["off"])
		return true, nil
	case "sleep":
		time.Sleep(time.Duration(toInt(ev["ms"])) * time.Millisecond)
		return true, nil
	}
	return false, nil
}

func copyTree(src, dst string) error {
	return filepath.Walk(src, func(p string, info os.FileInfo, err error) error {
		if err != nil {
			return err
		}
		rel, _ := filepath.Rel(src, p)
		q := filepath.Join(dst, rel)
		if info.IsDir() {
			return os.MkdirAll(q, 0o777)
		}
		if info.Mode()&os.ModeSymlink != 0 {
			to, err := os.Readlink(p)
			if err != nil {
				return err
			}
			return os.Symlink(to, q)
		}
		if !info.Mode().IsRegular() {
			return nil
		}
		b, err := os.ReadFile(p)
		if err != nil {
			return err
		}
		if err := os.WriteFile(q, b, info.Mode().Perm()); err != nil {
			return err
		}
		return os.Chtimes(q, info.ModTime(), info.ModTime())
	})
}

func scratchBase() string {
	if fi, err := os.Stat("/dev/shm"); err == nil && fi.IsDir() {
		return "/dev/shm"
	}
	return os.TempDir()
}

func describeEv(ev M) string {
	if a, ok := Argv(ev); ok {
		return "goit " + strings.Join(a, " ")
	}
	return fmt.Sprintf("%v", ev)
}
