package main

import (
	"fmt"
	"math/rand"
	"sort"
	"strings"
)

// Profile parametrises the state-aware random driver.
type Profile struct {
	Name      string
	Paths     []string // candidate path universe (raw strings)
	Branches  []string
	Msgs      []string
	Classes   []string // content classes
	MaxSize   int
	Weights   map[string]int
	TZs       []int
	Steps     int
	Hostile   int // percent of argument slots filled with hostile values
	Ignore    [][]string
	Obs       ObsSpec
	Sample    bool // draw a fresh path universe per trace (sampledFamily)
	NoInitCfg bool // do not start with init+identity
	CfgVals   []string
	RawOnly   []string // sub-commands the CLI-grammar events ("raw") are restricted to (empty = all)
}

var famSib = []string{"lib/a", "lib/b", "lib.go", "lib-old", "lib0", "a", "test/x", "test/y", "test.c", "test-data", "test0"}
var famNest = []string{"d/e/x", "d/e.x", "d/f", "g", "d/e/y/z", "d-o", "d.c", "d0", "ad/x", "da"}
var famOdd = []string{"assets.goit/data.txt", "sub/.goit/keep", "x.goit", "a b/c d", "p+q", "x(1)", "é/ü", "a.b/c", "my file.txt", "d x", "d x/y", "_u/v_", "日本/語.txt", "a[1]", "q*", "w?",
	"100%/50%d", "%s", "a%20b", "b\\c", "c|d", "{e}", "^f$", "g'h", "i\"j", "k#l", "m;n", "o=p", "r&s", "t~u", "v@w", "x!y", "`z`", "a,b", "c:d", "<e>/f"}
var famExt = []string{"src/a", "src/b", "src.c", "src-old", "src0", "src_x", "src2/c", "srcs", "src/sub/d", "src/sub.e"}
var famIgn = []string{"f", "build/o", "sub/build/o", "rebuild/o", "a.exe", "a.exe.txt", "x.goit/f", "sub/.goit/f", ".goitx", "b.exe/z", "sub/c.exe"}
var defaultBranches = []string{"main", "a", "ab", "b", "a-b", "a.b", "Z", "dev", "x_1", ".wip", "HEAD", "release", "Main", "A", "DEV", "z"} // (with names that differ only in letter case)

// sampledFamily draws a path universe around one directory name D: files beneath it, siblings whose names extend D with bytes
// sorting before and after '/', a nested directory with the same tail, dot-names next to the metadata directory, an odd name.
func sampledFamily(rng *rand.Rand) []string {
	d := []string{"lib", "d", "src", "test", "pkg"}[rng.Intn(5)]
	all := []string{d + "/a", d + "/b", d + "/sub/c", d + ".c", d + "-old", d + "0", d + "_x", d + "s/y", d + "2.go", "pkg2/" + d + "/a", "pkg2/" + d + "/b", "top.txt",
		".goitignore", ".goitx", ".hidden/f", "a b/c d", "é/ü", "x(1)", "z", d + "%d/x", "100% " + d, d + "#1;2", d + "\\" + d}
	rng.Shuffle(len(all), func(i, j int) { all[i], all[j] = all[j], all[i] })
	n := 7 + rng.Intn(5)
	out := append([]string{d + "/a", d + "/b"}, all[:n]...)
	return out
}

var defaultMsgs = []string{"raise coverage from 80% to 100%d of %s", "quote\nparent @ANC1@\ntree @TREE@", "revert\n\nparent @HEAD@", "first", "fix: thing", "a\tb", "two\nlines here now", "subject\n\nbody: with colon\nmore words in line", " padded ", "héllo wörld", "x: y: z", "m", "line one\nline two"}

func weightsDefault() map[string]int {
	return map[string]int{"write": 14, "remove": 4, "rmdir": 2, "touch": 2, "rewrite": 2, "add": 14, "rm": 4, "commit": 9, "restore": 4, "restores": 4,
		"reset": 5, "branch": 3, "branchd": 2, "branchr": 2, "switch": 3, "switchc": 2, "config": 2, "updateref": 2, "settz": 1, "ignore": 0, "raw": 0, "mkdir": 1, "writetree": 1, "cpdir": 1, "hashobject": 1, "revparse": 0}
}

func pickW(rng *rand.Rand, w map[string]int) string {
	keys := make([]string, 0, len(w))
	tot := 0
	for k, v := range w {
		if v > 0 {
			keys = append(keys, k)
			tot += v
		}
	}
	sort.Strings(keys)
	x := rng.Intn(tot)
	for _, k := range keys {
		x -= w[k]
		if x < 0 {
			return k
		}
	}
	return keys[0]
}

func dirsOf(paths []string) []string {
	set := map[string]bool{}
	for _, p := range paths {
		parts := strings.Split(p, "/")
		for i := 1; i < len(parts); i++ {
			set[strings.Join(parts[:i], "/")] = true
		}
	}
	out := []string{}
	for d := range set {
		out = append(out, d)
	}
	sort.Strings(out)
	return out
}

func keysOf(m M) []string {
	out := []string{}
	for k := range m {
		out = append(out, string(Unesc(k)))
	}
	sort.Strings(out)
	return out
}

func idxPaths(st M) []string {
	out := []string{}
	for _, e := range st["idx"].(M)["ents"].([]any) {
		out = append(out, string(Unesc(e.(M)["p"].(string))))
	}
	return out
}

var hostilePaths = []string{"nope", "../x", "./a", "d/", "/abs", "a//b", "-x", "d(1", "d[", "*", ".goit", ".goit/HEAD", ".goit/index", "x/../a", "\\a", "d\\x"}
var hostileBranches = []string{"../../HEAD", "../x", "a/b", "..", ".", "x/../y", "", "-d", "a b", "HEAD", "é", "a\tb", "x/", "refs/heads/q"}

func (p *Profile) pickPath(rng *rand.Rand, pool []string) string {
	if len(pool) == 0 || rng.Intn(100) < 10 {
		return p.Paths[rng.Intn(len(p.Paths))]
	}
	return pool[rng.Intn(len(pool))]
}

// genEvent draws one event given the current projected state.
func (p *Profile) genEvent(rng *rand.Rand, tr *Trace) M {
	st := tr.Cur
	wtFiles := keysOf(st["wt"].(M))
	tracked := idxPaths(st)
	branches := keysOf(st["refs"].(M))
	allKnown := append(append([]string{}, wtFiles...), tracked...)
	dirs := dirsOf(allKnown)
	hostile := func() bool { return rng.Intn(100) < p.Hostile }
	// tracked directories with at least two tracked paths beneath them (interesting for directory operations)
	var bigDirs []string
	{
		cnt := map[string]int{}
		for _, t := range tracked {
			parts := strings.Split(t, "/")
			for i := 1; i < len(parts); i++ {
				cnt[strings.Join(parts[:i], "/")]++
			}
		}
		for d, n := range cnt {
			if n >= 2 {
				bigDirs = append(bigDirs, d)
			}
		}
		sort.Strings(bigDirs)
	}
	pathArgs := func(pool []string, withDirs bool) []any {
		n := 1
		if rng.Intn(4) == 0 {
			n = 2 + rng.Intn(2)
		}
		out := []any{}
		for i := 0; i < n; i++ {
			var s string
			switch {
			case hostile():
				// static hostile spellings plus spellings that reach real files through an absolute path or through ".."
				// ("@ROOT@" is replaced by the absolute path of the working tree when the command is run)
				dyn := []string{"@ROOT@/.goit/HEAD", "../root/.goit/index", "@ROOT@/.goit", "../root/.goit/config",
					"@ROOT@", "../root", "@ROOT@/.", "../root/.", "./", "./.", "@ROOT@/../root"}
				if len(wtFiles) > 0 {
					dyn = append(dyn, "@ROOT@/"+wtFiles[rng.Intn(len(wtFiles))], "../root/"+wtFiles[rng.Intn(len(wtFiles))])
					// other spellings of an existing file: ./f, d/./g, d//g
					f := wtFiles[rng.Intn(len(wtFiles))]
					dyn = append(dyn, "./"+f, "./"+f)
					if i := strings.LastIndex(f, "/"); i > 0 {
						dyn = append(dyn, f[:i]+"/./"+f[i+1:], f[:i]+"//"+f[i+1:])
					}
				}
				if len(dirs) > 0 {
					dyn = append(dyn, "@ROOT@/"+dirs[rng.Intn(len(dirs))], "../root/"+dirs[rng.Intn(len(dirs))], "./"+dirs[rng.Intn(len(dirs))]+"/")
					// a directory the way shell completion writes it, and behind "./"
					dyn = append(dyn, dirs[rng.Intn(len(dirs))]+"/", "./"+dirs[rng.Intn(len(dirs))], dirs[rng.Intn(len(dirs))]+"/")
				}
				if rng.Intn(3) == 0 {
					s = dyn[rng.Intn(len(dyn))]
				} else {
					s = hostilePaths[rng.Intn(len(hostilePaths))]
				}
			case withDirs && len(bigDirs) > 0 && rng.Intn(4) == 0:
				s = bigDirs[rng.Intn(len(bigDirs))]
			case withDirs && len(dirs) > 0 && rng.Intn(3) == 0:
				s = dirs[rng.Intn(len(dirs))]
			default:
				s = p.pickPath(rng, pool)
			}
			out = append(out, EscS(s))
		}
		// a repeated argument, or a directory followed by one of the tracked paths beneath it: the second mention finds the
		// state the first one left behind (drawn with the state's own paths, so it happens often enough to matter)
		if len(out) > 0 && len(out) < 4 && rng.Intn(8) == 0 {
			first := string(Unesc(out[0].(string)))
			extra := first
			if rng.Intn(2) == 0 {
				var under []string
				for _, t := range tracked {
					if strings.HasPrefix(t, first+"/") {
						under = append(under, t)
					}
				}
				if len(under) > 0 {
					extra = under[rng.Intn(len(under))]
				}
			}
			out = append(out, EscS(extra))
		}
		return out
	}
	content := func() []byte {
		cls := p.Classes[rng.Intn(len(p.Classes))]
		sz := 0
		if p.MaxSize > 0 {
			sz = rng.Intn(p.MaxSize)
			if rng.Intn(3) == 0 {
				sz = rng.Intn(8)
			}
		}
		return genContent(cls, sz, rng)
	}
	branchName := func(existing bool) string {
		if hostile() {
			if len(branches) > 0 && rng.Intn(4) == 0 {
				// an existing branch under its full reference name, or a part of it
				return []string{"refs/heads/", "heads/", "./"}[rng.Intn(3)] + branches[rng.Intn(len(branches))]
			}
			return hostileBranches[rng.Intn(len(hostileBranches))]
		}
		if len(branches) > 0 && rng.Intn(12) == 0 {
			// an existing branch spelled in another letter case: a different name on this file system
			b := branches[rng.Intn(len(branches))]
			if v := flipCase(b); v != b {
				return v
			}
		}
		if len(branches) > 0 && rng.Intn(10) == 0 {
			// a name related to an existing one as prefix or suffix (main-old / main, hotfix / fix): lookups that
			// compare by HasPrefix/HasSuffix or by position in a sorted list confuse exactly these
			b := branches[rng.Intn(len(branches))]
			switch rng.Intn(4) {
			case 0:
				return b + []string{"2", "-old", ".x", "_"}[rng.Intn(4)]
			case 1:
				return []string{"hot", "x-", "re"}[rng.Intn(3)] + b
			case 2:
				if len(b) > 2 && !strings.EqualFold(b[:len(b)-1], "head") && isAlnum(b[len(b)-2]) {
					return b[:len(b)-1]
				}
			case 3:
				if len(b) > 2 && !strings.EqualFold(b[1:], "head") && isAlnum(b[1]) {
					return b[1:]
				}
			}
		}
		if existing && len(branches) > 0 && rng.Intn(5) > 0 {
			return branches[rng.Intn(len(branches))]
		}
		return p.Branches[rng.Intn(len(p.Branches))]
	}
	switch pickW(rng, p.Weights) {
	case "write":
		path := p.Paths[rng.Intn(len(p.Paths))]
		if len(tracked) > 0 && rng.Intn(100) < 35 {
			path = tracked[rng.Intn(len(tracked))] // edit a tracked file
		}
		// avoid file/dir conflicts on disk most of the time
		for _, d := range dirs {
			if d == path {
				path = path + "_f"
			}
		}
		if path == ".goitignore" {
			// a .goitignore is made of directory entries and *.ext entries (C17's domain), never of arbitrary bytes
			lines := []string{"build/", "*.exe", "*.tar.gz", "tmp/", "*.o", "a(b/", "*.c++"}
			n := 1 + rng.Intn(3)
			txt := ""
			for i := 0; i < n; i++ {
				txt += lines[rng.Intn(len(lines))] + "\n"
			}
			return M{"ev": "write", "p": EscS(path), "c": tr.AddContent([]byte(txt))}
		}
		wev := M{"ev": "write", "p": EscS(path), "c": tr.AddContent(content()), "old": rng.Intn(3) == 0}
		if rng.Intn(5) == 0 {
			// bytes that are in the object store already: an edit taken back to an earlier version, two files
			// exchanging their contents, a copy of another file
			if toks := storedContents(tr); len(toks) > 0 {
				wev["c"] = toks[rng.Intn(len(toks))]
			}
		}
		return wev
	case "rewrite":
		if len(wtFiles) == 0 {
			return nil
		}
		f := wtFiles[rng.Intn(len(wtFiles))]
		tok := st["wt"].(M)[EscS(f)].(string)
		if b, ok := tr.R.T.Blobs[tok]; ok {
			tr.Contents[tok] = b
			return M{"ev": "write", "p": EscS(f), "c": tok}
		}
		return nil
	case "remove":
		if len(wtFiles) == 0 {
			return nil
		}
		return M{"ev": "remove", "p": EscS(wtFiles[rng.Intn(len(wtFiles))])}
	case "rmdir":
		if len(dirs) == 0 {
			return nil
		}
		return M{"ev": "rmdir", "p": EscS(dirs[rng.Intn(len(dirs))])}
	case "mkdir":
		return M{"ev": "mkdir", "p": EscS(fmt.Sprintf("emptyd%d", rng.Intn(3)))}
	case "cpdir":
		if len(dirs) == 0 {
			return nil
		}
		from := dirs[rng.Intn(len(dirs))]
		return M{"ev": "cpdir", "p": EscS(from), "to": EscS(from + []string{"-copy", "2", ".bak"}[rng.Intn(3)])}
	case "dfswap":
		// a directory becomes a file, or a file becomes a directory with one file in it
		if len(dirs) > 0 && rng.Intn(2) == 0 {
			return M{"ev": "dfswap", "p": EscS(dirs[rng.Intn(len(dirs))]), "c": tr.AddContent(content()), "todir": false}
		}
		if len(wtFiles) > 0 {
			f := wtFiles[rng.Intn(len(wtFiles))]
			if f == ".goitignore" {
				return nil // the ignore file stays a file
			}
			return M{"ev": "dfswap", "p": EscS(f), "c": tr.AddContent(content()), "todir": true}
		}
		return nil
	case "touch":
		if len(wtFiles) == 0 {
			return nil
		}
		return M{"ev": "touch", "p": EscS(wtFiles[rng.Intn(len(wtFiles))]), "dt": rng.Intn(7200) - 3600}
	case "add":
		if rng.Intn(6) == 0 {
			return M{"ev": "add", "paths": []any{"."}}
		}
		// a directory above a tracked file that is modified in the working tree but not yet staged
		if mod := modifiedTracked(tr.R.T, st); len(mod) > 0 && rng.Intn(100) < 30 {
			f := mod[rng.Intn(len(mod))]
			if parts := strings.Split(f, "/"); len(parts) > 1 {
				return M{"ev": "add", "paths": []any{EscS(strings.Join(parts[:1+rng.Intn(len(parts)-1)], "/"))}}
			}
		}
		return M{"ev": "add", "paths": pathArgs(allKnown, true)}
	case "rm":
		return M{"ev": "rm", "paths": pathArgs(tracked, true)}
	case "restore":
		return M{"ev": "restore", "paths": pathArgs(tracked, true)}
	case "restores":
		// prefer arguments where the staging area differs from the HEAD snapshot (the path itself or a directory above it)
		if diff := stagedDiffPaths(tr.R.T, st); len(diff) > 0 && rng.Intn(2) == 0 {
			p := diff[rng.Intn(len(diff))]
			if parts := strings.Split(p, "/"); len(parts) > 1 && rng.Intn(2) == 0 {
				p = strings.Join(parts[:1+rng.Intn(len(parts)-1)], "/")
			}
			return M{"ev": "restores", "paths": []any{EscS(p)}}
		}
		return M{"ev": "restores", "paths": pathArgs(allKnown, true)}
	case "commit":
		msg := p.Msgs[rng.Intn(len(p.Msgs))]
		if strings.Contains(msg, "@") {
			// messages that quote ids of existing objects (header-like lines inside the message)
			anc := headId(st)
			if o := objOf(tr.R.T, st, anc); o != nil && o["k"] == "commit" && len(o["parents"].([]any)) > 0 {
				anc = o["parents"].([]any)[0].(string)
			}
			tree := ""
			if o := objOf(tr.R.T, st, headId(st)); o != nil && o["k"] == "commit" {
				tree = o["tree"].(string)
			}
			if headId(st) == "" {
				msg = "plain instead"
			}
			msg = strings.ReplaceAll(strings.ReplaceAll(strings.ReplaceAll(msg, "@HEAD@", headId(st)), "@ANC1@", anc), "@TREE@", tree)
		}
		return M{"ev": "commit", "msg": EscS(msg)}
	case "reset":
		mode := []string{"soft", "mixed", "hard", "default"}[rng.Intn(4)]
		n := rng.Intn(len(st["hlog"].([]any)) + 2)
		arg := fmt.Sprintf("HEAD@{%d}", n)
		if hostile() {
			arg = []string{"HEAD@{}", "HEAD", "xHEAD@{1}HEAD@{2}", "HEAD@{-1}", "HEAD@{1}x", "head@{0}", "HEAD@{99999999999999999999}", "HEAD@{ 1}", "HEAD@{01}"}[rng.Intn(9)]
		}
		return M{"ev": "reset", "mode": mode, "arg": EscS(arg)}
	case "branch":
		return M{"ev": "branch", "name": EscS(branchName(false))}
	case "branchd":
		return M{"ev": "branchd", "name": EscS(branchName(true))}
	case "branchr":
		return M{"ev": "branchr", "name": EscS(branchName(false))}
	case "switch":
		return M{"ev": "switch", "name": EscS(branchName(true))}
	case "switchc":
		return M{"ev": "switchc", "name": EscS(branchName(false))}
	case "config":
		vals := p.CfgVals
		if len(vals) == 0 {
			vals = []string{"Alice", "Bob B", "a@b.example.com"}
		}
		key := []string{"user.name", "user.email", "core.x", "user.x", "user.name", "user.email"}[rng.Intn(6)]
		if rng.Intn(14) == 0 {
			// a key that differs from an identity key in letter case only is another key: it neither sets nor hides the identity
			key = []string{"user.Name", "user.Email", "user.NAME", "user.eMail"}[rng.Intn(4)]
		}
		v := vals[rng.Intn(len(vals))]
		if rng.Intn(2) == 0 {
			v = genValue(rng, key == "user.name")
		}
		if strings.EqualFold(key, "user.email") {
			v = genEmail(rng)
		}
		return M{"ev": "config", "global": rng.Intn(5) < 2, "key": EscS(key), "value": EscS(v)}
	case "updateref":
		b := branchName(true)
		ref := "refs/heads/" + b
		if hostile() {
			ref = []string{"refs/heads/zzz/" + b, "xrefs/heads/" + b, "refs/heads/", b, "refs/tags/" + b}[rng.Intn(5)]
		}
		idref := []string{"head", "anc:1", "anc:2", "commit:0", "commit:1", "commit:2", "blob", "tree", "unknown", "short", "nonhex", "zero"}[rng.Intn(12)]
		return M{"ev": "updateref", "ref": EscS(ref), "idref": idref}
	case "settz":
		return M{"ev": "settz", "off": p.TZs[rng.Intn(len(p.TZs))]}
	case "ignore":
		lines := p.Ignore[rng.Intn(len(p.Ignore))]
		if len(lines) == 0 {
			return M{"ev": "remove", "p": ".goitignore"}
		}
		// the same entries in the shapes a text file takes: LF or CRLF line ends, with or without a final line end, blank lines
		eol := "\n"
		if rng.Intn(4) == 0 {
			eol = "\r\n"
		}
		txt := strings.Join(lines, eol)
		switch rng.Intn(6) {
		case 0: // no final line end
		case 1:
			txt = eol + txt + eol + eol
		default:
			txt += eol
		}
		return M{"ev": "write", "p": ".goitignore", "c": tr.AddContent([]byte(txt))}
	case "writetree":
		return M{"ev": "writetree"}
	case "revparse":
		// several names in one call, HEAD before and after branch names
		if len(branches) == 0 {
			return nil
		}
		var ns []any
		for i, n := 0, 1+rng.Intn(3); i < n; i++ {
			if b := branches[rng.Intn(len(branches))]; rng.Intn(3) == 0 || strings.ToLower(b) == "head" {
				ns = append(ns, "HEAD")
			} else {
				ns = append(ns, EscS(b))
			}
		}
		return M{"ev": "revparse", "names": ns}
	case "hashobject":
		// several files in one call, longer ones before shorter ones as often as the other way round
		if len(wtFiles) == 0 {
			return nil
		}
		n := 1 + rng.Intn(4)
		var ps []any
		for i := 0; i < n; i++ {
			f := wtFiles[rng.Intn(len(wtFiles))]
			if strings.HasPrefix(f, "-") {
				continue
			}
			ps = append(ps, EscS(f))
		}
		if len(ps) == 0 {
			return nil
		}
		return M{"ev": "hashobject", "paths": ps}
	case "raw":
		return p.genRaw(rng, tr, wtFiles, tracked, branches)
	}
	return nil
}

var subcmds = []struct {
	name  string
	flags []string
	ru    bool // refused => unchanged applies (whole-command validation)
}{
	{"add", nil, true}, {"rm", []string{"-r", "--rec"}, true}, {"commit", []string{"-m", "--message"}, true},
	{"status", nil, true}, {"log", []string{"-n", "--max-count"}, true}, {"reflog", nil, true},
	{"branch", []string{"-l", "--list", "-r", "--rename", "-d", "--delete"}, true}, {"switch", []string{"-c", "--create"}, true},
	{"restore", []string{"--staged"}, false}, {"reset", []string{"--soft", "--mixed", "--hard"}, true},
	{"config", []string{"--global"}, true}, {"cat-file", []string{"-t", "-p", "--type", "--print"}, true},
	{"ls-files", []string{"-s", "--staged"}, true}, {"hash-object", nil, true}, {"rev-parse", nil, true},
	{"update-ref", nil, true}, {"write-tree", nil, true}, {"init", nil, true}, {"", []string{"-v", "--version", "-t", "--toggle"}, true},
	{"help", nil, true}, {"version", nil, true}, {"nosuchcmd", nil, true},
}

// genRaw draws a command line from the CLI grammar: sub-command x flag subset x argument list (0..3)
// from the classes valid / missing / surplus / malformed id / non-existent path / regexp metacharacters.
func (p *Profile) genRaw(rng *rand.Rand, tr *Trace, wtFiles, tracked, branches []string) M {
	sc := subcmds[rng.Intn(len(subcmds))]
	if len(p.RawOnly) > 0 {
		for tries := 0; tries < 200 && !containsStr(p.RawOnly, sc.name); tries++ {
			sc = subcmds[rng.Intn(len(subcmds))]
		}
	}
	argv := []string{}
	if sc.name != "" {
		argv = append(argv, sc.name)
	}
	valueFlags := map[string]bool{"-m": true, "--message": true, "-n": true, "--max-count": true, "-r": sc.name == "branch", "--rename": true, "-d": true, "--delete": true, "-c": true, "--create": true}
	refCmd := sc.name == "branch" || sc.name == "switch" || sc.name == "update-ref" || sc.name == "rev-parse"
	argPool := func() string {
		st := tr.Cur
		if refCmd && rng.Intn(2) == 0 {
			// the branch commands mostly get branch names: existing ones, new ones, refs/heads/ spellings
			var b string
			if len(branches) > 0 && rng.Intn(3) > 0 {
				b = branches[rng.Intn(len(branches))]
			} else {
				b = p.Branches[rng.Intn(len(p.Branches))]
			}
			if sc.name == "update-ref" && rng.Intn(2) == 0 {
				return "refs/heads/" + b
			}
			return b
		}
		switch rng.Intn(12) {
		case 0:
			if len(wtFiles) > 0 {
				return wtFiles[rng.Intn(len(wtFiles))]
			}
		case 1:
			if len(tracked) > 0 {
				return tracked[rng.Intn(len(tracked))]
			}
		case 2:
			if len(branches) > 0 {
				return branches[rng.Intn(len(branches))]
			}
		case 3:
			return hostilePaths[rng.Intn(len(hostilePaths))]
		case 4:
			return hostileBranches[rng.Intn(len(hostileBranches))]
		case 5:
			if id := headId(st); id != "" {
				return id
			}
		case 6:
			ids := sortedKeys(st["objs"].(M))
			if len(ids) > 0 {
				return ids[rng.Intn(len(ids))]
			}
		case 7:
			return []string{"deadbeef", "zz", strings.Repeat("f", 40), strings.Repeat("0", 40), "HEAD", "head", "refs/heads/main", "refs/heads/nope"}[rng.Intn(8)]
		case 8:
			return fmt.Sprintf("HEAD@{%d}", rng.Intn(4))
		case 9:
			return []string{"user.name", "user", "a.b.c", ".", "x.y", "5", "-1", "0", "abc", ""}[rng.Intn(10)]
		case 10:
			return p.Paths[rng.Intn(len(p.Paths))]
		}
		return []string{"x", "main", "d", "a"}[rng.Intn(4)]
	}
	for _, f := range sc.flags {
		if rng.Intn(4) == 0 {
			argv = append(argv, f)
			if valueFlags[f] && rng.Intn(5) > 0 {
				argv = append(argv, argPool())
			}
		}
	}
	n := rng.Intn(4)
	if refCmd && rng.Intn(2) == 0 {
		n = 1 // one positional argument next to whatever flags were drawn: `switch -c new existing`, `branch -d a b`
	}
	for i := 0; i < n; i++ {
		argv = append(argv, argPool())
	}
	av := []any{}
	for _, a := range argv {
		if strings.ContainsRune(a, 0) {
			a = strings.ReplaceAll(a, "\x00", "")
		}
		av = append(av, EscS(a))
	}
	ru := sc.ru
	if (sc.name == "add" || sc.name == "rm") && n > 1 {
		// arguments are processed one after the other: with repeated or overlapping arguments the first occurrence
		// acts and a later one may fail, so a non-zero exit does not mean that nothing was done
		ru = false
	}
	return M{"ev": "raw", "argv": av, "ru": ru, "dom": false, "sub": sc.name}
}

func annotated(T *Tables, ev M) M {
	annotate(T, ev)
	return ev
}

func initEvents() []M {
	return []M{
		{"ev": "init"},
		{"ev": "config", "key": "user.name", "value": EscS("Test User")},
		{"ev": "config", "key": "user.email", "value": "t@example.com"},
	}
}

// runRandom produces one random trace.
func runRandom(goit, base string, T *Tables, p *Profile, rng *rand.Rand, label string) *Trace {
	if p.Sample {
		p.Paths = sampledFamily(rng)
	}
	r := NewRunner(goit, base, T)
	if len(p.TZs) > 0 {
		r.TZ = p.TZs[rng.Intn(len(p.TZs))]
	}
	tr := NewTrace(r, p.Obs, label)
	if !p.NoInitCfg {
		for _, ev := range initEvents() {
			annotate(T, ev)
			tr.Step(ev)
		}
	} else {
		ev := M{"ev": "init"}
		annotate(T, ev)
		tr.Step(ev)
		if p.Name == "identity" {
			// one of the 16 ways to spread name and e-mail over the two scopes: none / local / global / both
			for _, key := range []string{"user.name", "user.email"} {
				vals := []string{"Local Name", "Global Name"}
				if key == "user.email" {
					vals = []string{"local@example.com", "global@example.org"}
				}
				switch rng.Intn(4) {
				case 1:
					tr.Step(annotated(T, M{"ev": "config", "key": EscS(key), "value": EscS(vals[0])}))
				case 2:
					tr.Step(annotated(T, M{"ev": "config", "global": true, "key": EscS(key), "value": EscS(vals[1])}))
				case 3:
					tr.Step(annotated(T, M{"ev": "config", "key": EscS(key), "value": EscS(vals[0])}))
					tr.Step(annotated(T, M{"ev": "config", "global": true, "key": EscS(key), "value": EscS(vals[1])}))
				}
			}
		}
	}
	for i := 0; i < p.Steps; i++ {
		ev := p.genEvent(rng, tr)
		if ev == nil {
			continue
		}
		resolveIds(T, tr.Cur, ev)
		annotate(T, ev)
		step := tr.Step(ev)
		if step["res"] == "crash" || step["res"] == "hang" || !repoUsable(tr.Cur) {
			break
		}
	}
	return tr
}

// repoUsable: after a step that left the repository invalid the driver ends the trace
// (the breaking step has been recorded and judged).
func repoUsable(st M) bool {
	if !st["repo"].(bool) {
		return true
	}
	h := st["head"].(M)
	if !h["ok"].(bool) {
		return false
	}
	for _, v := range st["refs"].(M) {
		if !isHex40(string(Unesc(v.(string)))) {
			return false
		}
	}
	if !st["idx"].(M)["ok"].(bool) {
		return false
	}
	return true
}

// headSnapshot flattens the tree of HEAD's commit (path -> blob id) through the projector's decoded objects.
func headSnapshot(T *Tables, st M) map[string]string {
	out := map[string]string{}
	h := headId(st)
	o := objOf(T, st, h)
	if o == nil || o["k"] != "commit" {
		return out
	}
	var walk func(tid, pfx string, depth int)
	walk = func(tid, pfx string, depth int) {
		t := objOf(T, st, tid)
		if t == nil || t["k"] != "tree" || depth > 20 {
			return
		}
		for _, e := range t["ents"].([]any) {
			en := e.(M)
			name := pfx + string(Unesc(en["n"].(string)))
			if en["m"] == "040000" {
				walk(en["id"].(string), name+"/", depth+1)
			} else {
				out[name] = en["id"].(string)
			}
		}
	}
	walk(o["tree"].(string), "", 0)
	return out
}

// stagedDiffPaths: paths whose staged entry differs from the HEAD snapshot (new, modified or deleted).
func stagedDiffPaths(T *Tables, st M) []string {
	head := headSnapshot(T, st)
	idx := map[string]string{}
	for _, e := range st["idx"].(M)["ents"].([]any) {
		idx[string(Unesc(e.(M)["p"].(string)))] = e.(M)["id"].(string)
	}
	var out []string
	for p, id := range idx {
		if head[p] != id {
			out = append(out, p)
		}
	}
	for p := range head {
		if _, ok := idx[p]; !ok {
			out = append(out, p)
		}
	}
	sort.Strings(out)
	return out
}

// modifiedTracked: tracked files whose working-tree bytes differ from their staged blob.
func modifiedTracked(T *Tables, st M) []string {
	var out []string
	wt := st["wt"].(M)
	for _, e := range st["idx"].(M)["ents"].([]any) {
		p := e.(M)["p"].(string)
		c, ok := wt[p]
		if !ok {
			continue
		}
		T.mu.Lock()
		ci := T.Contents[c.(string)]
		T.mu.Unlock()
		if ci != nil && ci["blobid"] != e.(M)["id"] {
			out = append(out, string(Unesc(p)))
		}
	}
	sort.Strings(out)
	return out
}

// genEmail draws an address from the grammar Goit accepts in a commit's author line
// (local part [a-zA-Z0-9_.+-]+, one or more labels [a-zA-Z0-9][a-zA-Z0-9-]*, top-level domain of two or more letters),
// with the boundary shapes (one-character parts, digits first, trailing hyphen, upper case) over-represented.
func genEmail(rng *rand.Rand) string {
	if rng.Intn(3) == 0 {
		return []string{"a@b.example.com", "x.y+z@mail.example.org", "q_1@ex-ample.co", "A@B.CD", "0@1.zz", "x-.-@a-.b-.io", "first.last@sub.sub2.sub3.example", "a+b+c@x.museum", "__@9x.Org", "a@b.c.d.e.fg"}[rng.Intn(10)]
	}
	pick := func(set string, n int) string {
		b := make([]byte, n)
		for i := range b {
			b[i] = set[rng.Intn(len(set))]
		}
		return string(b)
	}
	const alnum = "abcdefghijklmnopqrstuvwxyzABCDEFGHIJKLMNOPQRSTUVWXYZ0123456789"
	const alpha = "abcdefghijklmnopqrstuvwxyzABCDEFGHIJKLMNOPQRSTUVWXYZ"
	s := pick(alnum+"_.+", 1) + pick(alnum+"_.+-", rng.Intn(8)) + "@" // (an argument that starts with '-' is an option to the command line)
	for i, n := 0, 1+rng.Intn(3); i < n; i++ {
		s += pick(alnum, 1) + pick(alnum+"-", rng.Intn(6)) + "."
	}
	return s + pick(alpha, 2+rng.Intn(4))
}

// genValue draws a configuration value from C20's domain (printable characters, inner single spaces): one to three
// words, each with one punctuation character somewhere, so that over a run every printable ASCII punctuation
// character occurs at the start, in the middle and at the end of a word. A user name has no '<' (C12's domain);
// no value starts with '-' (the command line would read it as an option).
func genValue(rng *rand.Rand, isName bool) string {
	const punct = "!\"#$%&'()*+,-./:;<=>?@[\\]^_`{|}~"
	words := []string{"Release", "Bot", "nightly", "R2", "x", "dev", "Zoë", "名"}
	var out []string
	for i, n := 0, 1+rng.Intn(3); i < n; i++ {
		w := words[rng.Intn(len(words))]
		c := string(punct[rng.Intn(len(punct))])
		if isName && c == "<" {
			c = ">"
		}
		switch rng.Intn(4) {
		case 0:
			w = c + w
		case 1:
			w = w + c
		case 2:
			w = w + c + words[rng.Intn(len(words))]
		}
		out = append(out, w)
	}
	v := strings.Join(out, " ")
	if strings.HasPrefix(v, "-") {
		v = "x" + v
	}
	return v
}

// storedContents lists the content tokens of the blobs in the current object store whose bytes this trace knows
// (sorted, for reproducibility).
func storedContents(tr *Trace) []string {
	var out []string
	objs, _ := tr.Cur["objs"].(M)
	for _, id := range sortedKeys(objs) {
		tok, _ := objs[id].(string)
		tr.R.T.mu.Lock()
		o := tr.R.T.Objects[tok]
		tr.R.T.mu.Unlock()
		if o != nil && o["k"] == "blob" {
			if c, ok := o["d"].(string); ok {
				if _, have := tr.Contents[c]; have {
					out = append(out, c)
				}
			}
		}
	}
	return out
}

func containsStr(l []string, x string) bool {
	for _, y := range l {
		if y == x {
			return true
		}
	}
	return false
}

func isAlnum(c byte) bool {
	return c >= '0' && c <= '9' || c >= 'a' && c <= 'z' || c >= 'A' && c <= 'Z'
}

// flipCase changes the case of the first letter of s that has one.
func flipCase(s string) string {
	b := []byte(s)
	for i, c := range b {
		switch {
		case c >= 'a' && c <= 'z':
			b[i] = c - 32
			return string(b)
		case c >= 'A' && c <= 'Z':
			b[i] = c + 32
			return string(b)
		}
	}
	return s
}
