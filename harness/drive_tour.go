package main

// Transition tour: TLC explores the bounded operational model (MC_<name>), emits every generated transition as the
// path of events leading to it, and the harness executes every edge exactly once against the real binary
// by walking the trie of paths, copying the scratch repository at every branch.

import (
	"bufio"
	"encoding/json"
	"fmt"
	"math/rand"
	"os"
	"path/filepath"
	"sort"
	"strconv"
	"strings"
	"sync"
	"time"
)

type tourNode struct {
	ev       M
	exp      M
	children map[string]*tourNode
	order    []string
}

type TourInfo struct {
	Parent map[int]int // step line -> parent step line (0 = root)
	Event  map[int]M
	Conc   map[string][]byte // model content token -> bytes
	TZ     int
	Obs    ObsSpec
	Root   []M // the events that produce the model's initial state
}

// runModelCheck runs TLC on MC_<name>.cfg (StepOK + invariants). Returns states generated / distinct.
func runModelCheck(dir, name string, workers int, timeout time.Duration) (ModelStats, error) {
	t0 := time.Now()
	ms := ModelStats{Module: "MC_" + name}
	os.MkdirAll(dir, 0o777)
	if err := linkSpecs(dir); err != nil {
		return ms, err
	}
	cmd := tlcCmd(dir, "8g", "-workers", strconv.Itoa(workers), "-config", "MC_"+name+".cfg", "MC_"+name+".tla")
	outPath := filepath.Join(dir, "mc.out")
	out, _ := os.Create(outPath)
	cmd.Stdout, cmd.Stderr = out, out
	if err := cmd.Start(); err != nil {
		return ms, err
	}
	done := make(chan error, 1)
	go func() { done <- cmd.Wait() }()
	var err error
	select {
	case err = <-done:
	case <-time.After(timeout):
		cmd.Process.Kill()
		<-done
		return ms, fmt.Errorf("TLC model check of MC_%s timed out", name)
	}
	out.Close()
	b, _ := os.ReadFile(outPath)
	txt := string(b)
	ok := strings.Contains(txt, "Model checking completed. No error has been found.")
	for _, ln := range strings.Split(txt, "\n") {
		if strings.Contains(ln, "states generated") && strings.Contains(ln, "distinct states found") && !strings.HasPrefix(ln, "Progress") {
			var g, d int
			fmt.Sscanf(strings.ReplaceAll(ln, ",", ""), "%d states generated %d distinct states found", &g, &d)
			ms.Transitions, ms.States = g, d
		}
	}
	ms.Wall = time.Since(t0).Seconds()
	if !ok || err != nil {
		tail := txt
		if len(tail) > 1500 {
			tail = tail[len(tail)-1500:]
		}
		return ms, fmt.Errorf("TLC model check of MC_%s did not succeed (%v): %s", name, err, tail)
	}
	return ms, nil
}

// emitEdges runs TLC with the edge emitter and returns the trie of event paths.
func emitEdges(dir, name string, workers int, timeout time.Duration) (*tourNode, int, error) {
	os.MkdirAll(dir, 0o777)
	if err := linkSpecs(dir); err != nil {
		return nil, 0, err
	}
	cmd := tlcCmd(dir, "8g", "-workers", strconv.Itoa(workers), "-config", "MC_"+name+"_emit.cfg", "MC_"+name+".tla")
	outPath := filepath.Join(dir, "emit.out")
	out, _ := os.Create(outPath)
	cmd.Stdout, cmd.Stderr = out, out
	if err := cmd.Start(); err != nil {
		return nil, 0, err
	}
	done := make(chan error, 1)
	go func() { done <- cmd.Wait() }()
	select {
	case <-done:
	case <-time.After(timeout):
		cmd.Process.Kill()
		<-done
		return nil, 0, fmt.Errorf("TLC edge emission of MC_%s timed out", name)
	}
	out.Close()
	f, err := os.Open(outPath)
	if err != nil {
		return nil, 0, err
	}
	defer f.Close()
	root := &tourNode{children: map[string]*tourNode{}}
	n := 0
	okDone := false
	sc := bufio.NewScanner(f)
	sc.Buffer(make([]byte, 1<<20), 1<<26)
	for sc.Scan() {
		ln := sc.Text()
		if strings.Contains(ln, "Model checking completed. No error has been found.") {
			okDone = true
		}
		if !strings.HasPrefix(ln, "\"{") {
			continue
		}
		s, uerr := strconv.Unquote(ln)
		if uerr != nil {
			continue
		}
		var rec struct {
			K    string `json:"k"`
			Path []M    `json:"path"`
			Exp  M      `json:"exp"`
		}
		if json.Unmarshal([]byte(s), &rec) != nil || rec.K != "E" {
			continue
		}
		cur := root
		for i, ev := range rec.Path {
			b, _ := json.Marshal(ev)
			key := string(b)
			ch, ok := cur.children[key]
			if !ok {
				ch = &tourNode{ev: ev, children: map[string]*tourNode{}}
				cur.children[key] = ch
				cur.order = append(cur.order, key)
			}
			if i == len(rec.Path)-1 && ch.exp == nil {
				ch.exp = rec.Exp
				n++
			}
			cur = ch
		}
	}
	if !okDone {
		b, _ := os.ReadFile(outPath)
		tail := string(b)
		if len(tail) > 1500 {
			tail = tail[len(tail)-1500:]
		}
		return nil, 0, fmt.Errorf("TLC edge emission of MC_%s failed: %s", name, tail)
	}
	return root, n, nil
}

type confStats struct {
	mu       sync.Mutex
	Edges    int
	Agree    int
	Disagree map[string]int
	Examples []string
	// observations (status, branch --list, log) against the model's transcriptions of these commands
	ObsEdges    int
	ObsAgree    int
	ObsDisagree map[string]int
}

// normalise a JSON-decoded event from TLC into a harness event (numbers, id mapping).
func tourEvent(ev M, conc map[string][]byte, commits []string, contents map[string][]byte, T *Tables) M {
	out := cloneEv(ev)
	if tz, ok := out["tz"]; ok {
		out["runtz"] = toInt(tz) // the zone offset under which the command is to run (honoured by execStep, kept in replay files)
	}
	delete(out, "t0")
	delete(out, "t1")
	delete(out, "tz")
	delete(out, "cls")
	if c, ok := out["c"].(string); ok {
		b := conc[c]
		tok := T.Content(b)
		contents[tok] = b
		out["c"] = tok
		out["mc"] = c
		out["old"] = true // tour writes keep an old modification time, so nothing can rely on "newer than the index"
	}
	if n, ok := out["n"]; ok {
		out["n"] = toInt(n)
	}
	if out["ev"] == "updateref" {
		id, _ := out["id"].(string)
		switch {
		case strings.HasPrefix(id, "k"):
			k, _ := strconv.Atoi(id[1:])
			if k >= 1 && k <= len(commits) {
				out["id"] = commits[k-1]
			} else {
				out["id"] = strings.Repeat("3", 40)
			}
		case strings.HasPrefix(id, "b_"):
			out["id"] = gitId("blob", conc[id[2:]])
		case strings.HasPrefix(id, "t("):
			delete(out, "id")
			out["idref"] = "tree"
		default:
			out["id"] = "deadbeefdeadbeefdeadbeefdeadbeefdeadbeef"
		}
	}
	return out
}

// tourJobs builds the jobs that replay the state graph of MC_<name>: the first-level subtrees are spread over jobs.
func tourJobs(cx *CheckCtx, name string, obs ObsSpec, maxEdges int) []Job {
	dir := filepath.Join(cx.Scratch, "mc_"+name)
	var ms ModelStats
	var merr error
	mdone := make(chan struct{})
	go func() {
		ms, merr = runModelCheck(filepath.Join(dir, "check"), name, 8, 30*time.Minute)
		close(mdone)
	}()
	root, nEdges, err := emitEdges(filepath.Join(dir, "emit"), name, 1, 30*time.Minute)
	<-mdone
	os.RemoveAll(dir)
	cx.mu.Lock()
	if merr != nil {
		cx.InfraErr = append(cx.InfraErr, merr.Error())
	} else {
		cx.Models = append(cx.Models, ms)
	}
	if err != nil {
		cx.InfraErr = append(cx.InfraErr, err.Error())
	}
	cx.mu.Unlock()
	if merr != nil || err != nil {
		return nil
	}
	cs := &confStats{Disagree: map[string]int{}}
	cx.mu.Lock()
	cx.Extra["model_conformance_"+name] = cs
	cx.Extra["tour_edges_"+name] = nEdges
	cx.mu.Unlock()
	// concretise the model's content tokens
	rng := rand.New(rand.NewSource(cx.Seed*31 + 7))
	conc := map[string][]byte{}
	classes := []string{"text", "nul", "digits_space", "header_like", "invalid_utf8", "crlf"}
	for i := 1; i <= 4; i++ {
		b := genContent(classes[rng.Intn(len(classes))], 1+rng.Intn(60), rng)
		b = append([]byte(fmt.Sprintf("%d:", i)), b...)
		conc[fmt.Sprintf("c%d", i)] = b
	}
	// instance side file: fixed contents (e.g. .goitignore variants) and whether the initial state has an identity
	withID := true
	if b, err := os.ReadFile(filepath.Join(specDir(), "MC_"+name+".json")); err == nil {
		var side struct {
			WithID   *bool             `json:"withid"`
			Contents map[string]string `json:"contents"`
		}
		if json.Unmarshal(b, &side) == nil {
			for k, v := range side.Contents {
				conc[k] = []byte(v)
			}
			if side.WithID != nil {
				withID = *side.WithID
			}
		}
	}
	rootEvents := func() []M {
		if withID {
			return initEvents()
		}
		return initEvents()[:1]
	}
	// split: each second-level subtree is one job, so that the work spreads over the cores
	type unit struct {
		prefix []*tourNode
		node   *tourNode
	}
	var units []unit
	var budget = maxEdges
	// the model may start with a fixed prefix of events (a chain): one unit owns the chain, the others re-execute it as a
	// prefix that is not judged again; below the first fork each second-level subtree is one unit
	var chain []*tourNode
	fork := root
	for len(fork.children) == 1 {
		n := fork.children[fork.order[0]]
		chain = append(chain, n)
		fork = n
	}
	if len(chain) > 0 {
		var head, prev *tourNode
		for _, n := range chain {
			c := &tourNode{ev: n.ev, exp: n.exp, children: map[string]*tourNode{}}
			if prev == nil {
				head = c
			} else {
				b, _ := json.Marshal(c.ev)
				prev.children[string(b)] = c
				prev.order = append(prev.order, string(b))
			}
			prev = c
		}
		units = append(units, unit{nil, head})
	}
	for _, k1 := range fork.order {
		n1 := fork.children[k1]
		if len(n1.children) == 0 {
			units = append(units, unit{chain, n1})
			continue
		}
		units = append(units, unit{chain, &tourNode{ev: n1.ev, exp: n1.exp, children: map[string]*tourNode{}}})
		for _, k2 := range n1.order {
			units = append(units, unit{append(append([]*tourNode{}, chain...), n1), n1.children[k2]})
		}
	}
	_ = budget
	var jobs []Job
	per := (len(units) + 47) / 48
	if per < 1 {
		per = 1
	}
	for i := 0; i < len(units); i += per {
		j := i + per
		if j > len(units) {
			j = len(units)
		}
		us := units[i:j]
		jobs = append(jobs, Job{Name: fmt.Sprintf("tour MC_%s [%d..%d)", name, i, j), Make: func(goit string, c *Chunk, rng *rand.Rand) {
			c.Tour = &TourInfo{Parent: map[int]int{}, Event: map[int]M{}, Conc: conc, TZ: 540, Obs: obs, Root: rootEvents()}
			for _, u := range us {
				base, err := os.MkdirTemp(scratchBase(), "vtour")
				if err != nil {
					panic(err)
				}
				r := NewRunner(goit, base, c.T)
				r.TZ = 540
				contents := map[string][]byte{}
				// root state: init + identity (the model's Init)
				for _, ev := range rootEvents() {
					annotate(c.T, ev)
					r.ApplyEnv(ev, contents)
					a, _ := Argv(ev)
					r.RunGoit(a...)
				}
				st := c.T.Project(r.Root, r.Home)
				c.Lines = append(c.Lines, M{"kind": "state", "st": st, "obs": r.Observe(obs, st, nil), "trace": "tour"})
				line := len(c.Lines)
				var commits []string
				parentStep := 0
				okPrefix := true
				for _, pn := range u.prefix {
					if tz, ok := pn.ev["tz"]; ok {
						r.TZ = toInt(tz)
					}
					ev := tourEvent(pn.ev, conc, commits, contents, c.T)
					resolveIds(c.T, st, ev)
					annotate(c.T, ev)
					var step M
					line, st, step = execStep(&c.Lines, r, obs, "tour", line, st, ev, contents)
					sl := len(c.Lines)
					c.Tour.Parent[sl] = parentStep
					c.Tour.Event[sl] = ev
					parentStep = sl
					if ev["ev"] == "commit" && step["res"] == "ok" {
						commits = append(commits, headId(st))
					}
					// prefix edges are judged in the job that owns them; mark this copy as not to be judged twice
					step["dup"] = true
					if step["res"] == "crash" || step["res"] == "hang" {
						okPrefix = false
					}
				}
				if okPrefix {
					tourWalk(c, r, u.node, line, st, parentStep, commits, contents, cs)
				}
				os.RemoveAll(base)
			}
		}})
	}
	return jobs
}

func tourWalk(c *Chunk, r *Runner, n *tourNode, line int, st M, parentStep int, commits []string, contents map[string][]byte, cs *confStats) {
	if tz, ok := n.ev["tz"]; ok {
		r.TZ = toInt(tz) // the model's event says under which zone offset the command runs
	}
	ev := tourEvent(n.ev, c.Tour.Conc, commits, contents, c.T)
	resolveIds(c.T, st, ev)
	annotate(c.T, ev)
	postLine, post, step := execStep(&c.Lines, r, c.Tour.Obs, "tour", line, st, ev, contents)
	sl := len(c.Lines)
	c.Tour.Parent[sl] = parentStep
	c.Tour.Event[sl] = ev
	if ev["ev"] == "commit" && step["res"] == "ok" {
		commits = append(append([]string{}, commits...), headId(post))
	}
	if n.exp != nil {
		compareModel(cs, n.exp, step, post, c.Tour.Conc, c.T, ev)
		if obs, ok := c.Lines[postLine-1]["obs"].(M); ok {
			compareModelObs(cs, n.exp, obs, commits)
		}
	}
	if step["res"] == "crash" || step["res"] == "hang" || !repoUsable(post) {
		return
	}
	keys := n.order
	for i, k := range keys {
		ch := n.children[k]
		if i == len(keys)-1 {
			// last child may reuse this directory
			tourWalk(c, r, ch, postLine, post, sl, commits, contents, cs)
			break
		}
		nb, err := os.MkdirTemp(scratchBase(), "vtourc")
		if err != nil {
			panic(err)
		}
		copyTree(r.Base, nb)
		r2 := runnerAt(r.Goit, nb, c.T, r.TZ)
		tourWalk(c, r2, ch, postLine, post, sl, commits, contents, cs)
		os.RemoveAll(nb)
	}
}

// compareModelObs: what status, branch --list and log printed against what the model's transcriptions of these commands
// (StatusImpl, BranchListObs, LogObs in Goit.tla) say they print. Information (MODEL-DRIFT), never a verdict.
func compareModelObs(cs *confStats, exp M, obs M, commits []string) {
	var diffs []string
	setOf := func(v any, f func(M) string) map[string]bool {
		out := map[string]bool{}
		l, _ := v.([]any)
		for _, x := range l {
			switch y := x.(type) {
			case M:
				out[f(y)] = true
			case string:
				out[y] = true
			}
		}
		return out
	}
	cp := func(m M) string { return fmt.Sprint(m["c"], " ", m["p"]) }
	if es, ok := exp["status"].(M); ok {
		if rs, ok := obs["status"].(M); ok && rs["res"] == "ok" {
			for _, k := range []string{"staged", "unstaged", "untracked"} {
				if !sameSet(setOf(es[k], cp), setOf(rs[k], cp)) {
					diffs = append(diffs, "status."+k)
				}
			}
		} else if ok {
			diffs = append(diffs, "status.res")
		}
	}
	if eb, ok := exp["blist"]; ok {
		if rb, ok := obs["branches"].(M); ok {
			if !sameSet(setOf(eb, nil), setOf(rb["names"], nil)) {
				diffs = append(diffs, "branchlist")
			}
		}
	}
	if el, ok := exp["logd"].([]any); ok {
		if lg, ok := obs["log"].(M); ok {
			if d, ok := lg["d"].(M); ok {
				var got []string
				if l, ok := d["ents"].([]any); ok {
					for _, x := range l {
						if m, ok := x.(M); ok {
							got = append(got, fmt.Sprint(m["id"]))
						}
					}
				}
				same := len(got) == len(el)
				for i := 0; same && i < len(el); i++ {
					// model commit ids are k1, k2, ...: the n-th successful commit of the path
					n := 0
					fmt.Sscanf(fmt.Sprint(el[i]), "k%d", &n)
					if n < 1 || n > len(commits) || commits[n-1] != got[i] {
						same = false
					}
				}
				if !same {
					diffs = append(diffs, "log")
				}
			}
		}
	}
	cs.mu.Lock()
	cs.ObsEdges++
	if len(diffs) == 0 {
		cs.ObsAgree++
	} else {
		for _, d := range diffs {
			if cs.ObsDisagree == nil {
				cs.ObsDisagree = map[string]int{}
			}
			cs.ObsDisagree[d]++
		}
	}
	cs.mu.Unlock()
}

// compareModel: agreement of the real post-state with the model's, on the components where the model is
// deterministic. Disagreement is information (MODEL-DRIFT), never a verdict.
func compareModel(cs *confStats, exp M, step M, post M, conc map[string][]byte, T *Tables, ev M) {
	var diffs []string
	if exp["res"] != step["res"] {
		diffs = append(diffs, "res")
	}
	want := map[string]bool{}
	if l, ok := exp["idxp"].([]any); ok {
		for _, p := range l {
			want[p.(string)] = true
		}
	}
	got := map[string]bool{}
	for _, e := range post["idx"].(M)["ents"].([]any) {
		got[e.(M)["p"].(string)] = true
	}
	if !sameSet(want, got) {
		diffs = append(diffs, "idx")
	}
	wantWt := map[string]string{}
	if m, ok := exp["wt"].(map[string]any); ok {
		for p, c := range m {
			wantWt[p] = T.Content(conc[c.(string)])
		}
	}
	gotWt := map[string]string{}
	for p, c := range post["wt"].(M) {
		gotWt[p] = c.(string)
	}
	if len(wantWt) != len(gotWt) {
		diffs = append(diffs, "wt")
	} else {
		for p, c := range wantWt {
			if gotWt[p] != c {
				diffs = append(diffs, "wt")
				break
			}
		}
	}
	wb := map[string]bool{}
	if l, ok := exp["br"].([]any); ok {
		for _, p := range l {
			wb[p.(string)] = true
		}
	}
	gb := map[string]bool{}
	for b := range post["refs"].(M) {
		gb[b] = true
	}
	if !sameSet(wb, gb) {
		diffs = append(diffs, "branches")
	}
	if exp["head"] != post["head"].(M)["branch"] {
		diffs = append(diffs, "head")
	}
	if toInt(exp["nlog"]) != len(post["hlog"].([]any)) {
		diffs = append(diffs, "nlog")
	}
	// per-branch journals: the same branches have one, with the same number of records and the same last kind
	if eb, has := exp["blog"]; has {
		want := map[string]string{}
		if m, ok := eb.(map[string]any); ok {
			for b, v := range m {
				if r, ok := v.(map[string]any); ok {
					want[b] = fmt.Sprintf("%d/%v", toInt(r["n"]), r["kind"])
				}
			}
		}
		got := map[string]string{}
		if m, ok := post["blog"].(M); ok {
			for b, v := range m {
				if l, ok := v.([]any); ok && len(l) > 0 {
					last, _ := l[len(l)-1].(M)
					got[b] = fmt.Sprintf("%d/%v", len(l), last["kind"])
					if os.Getenv("VERIF_DEBUG") == "2" && last["ok"] == false {
						fmt.Fprintln(os.Stderr, "BLOG-RAW", last["raw"])
					}
				}
			}
		}
		if os.Getenv("VERIF_DEBUG") == "2" && fmt.Sprint(want) != fmt.Sprint(got) {
			fmt.Fprintln(os.Stderr, "BLOG-DIFF want", want, "got", got)
		}
		if len(want) != len(got) {
			diffs = append(diffs, "blog")
		} else {
			for b, w := range want {
				if got[b] != w {
					diffs = append(diffs, "blog")
					break
				}
			}
		}
	}
	cs.mu.Lock()
	cs.Edges++
	if len(diffs) == 0 {
		cs.Agree++
	} else {
		sort.Strings(diffs)
		for _, d := range diffs {
			cs.Disagree[d]++
		}
		if len(cs.Examples) < 5 {
			cs.Examples = append(cs.Examples, fmt.Sprintf("%s: %s", describeEv(ev), strings.Join(diffs, ",")))
		}
	}
	cs.mu.Unlock()
}

func sameSet(a, b map[string]bool) bool {
	if len(a) != len(b) {
		return false
	}
	for k := range a {
		if !b[k] {
			return false
		}
	}
	return true
}
